"""E-verus: inject contracts into mechanically extracted text, run one `verus` process per
obligation, classify the outcome.

Outcome classes per obligation:
  ok        - verified, 0 errors
  fail      - Verus reports a failed proof obligation (assertion / postcondition / precondition /
              invariant / overflow / index / termination) in the function under contract
  undecided - rlimit or timeout (after one retry at a higher rlimit)
  infra     - Verus rejected the text (syntax / unsupported construct / mode error), anchor lost,
              JSON unreadable: never reported as a violation (exit 2)
"""
import json, os, re, subprocess, time, hashlib
from concurrent.futures import ThreadPoolExecutor
from . import rsx
from .rsx import ExtractError

VERUS = os.environ.get('VERIF_VERUS', 'verus')
BUILD = os.environ.get('VERIF_BUILD', '/verif/.build')


# --------------------------------------------------------------------------------------------
# locating functions inside the generated unit text

def impl_spans(s, type_name):
    """All (body_start, body_end) of `impl.. Type..{}` blocks for `type_name` (inherent or trait)."""
    spans = []
    for m in re.finditer(r'^[ \t]*impl\b[^{;]*?\b%s\b[^{;]*\{' % re.escape(type_name), s, re.M):
        j = m.end() - 1
        k = rsx.match_brace(s, j)
        spans.append((j + 1, k, m.group(0)))
    return spans


def locate_fn(s, qual, nth=0):
    """`Type::name`, `Type::name@Trait<..>` (method of a trait impl) or bare `name` (free fn).
    Returns (i, j, k): s[i:k] whole fn from start of its first line, s[j] the opening brace."""
    trait = None
    if '@' in qual:
        qual, trait = qual.split('@', 1)
    if '::' in qual:
        ty, name = qual.rsplit('::', 1)
        hits = []
        for (a, b, hdr) in impl_spans(s, ty):
            if trait is not None and trait not in re.sub(r'\s+', ' ', hdr):
                continue
            if trait is None and re.search(r'\bfor\b', hdr):
                # inherent impls preferred when no trait named
                pass
            pos = a
            while True:
                try:
                    i, j, k = rsx.find_fn(s, name, pos, b)
                except ExtractError:
                    break
                # only direct children of the impl (depth 0 inside block)
                depth = 0
                for idx, c in rsx.tokens_outside(s, a, i):
                    if c == '{': depth += 1
                    elif c == '}': depth -= 1
                if depth == 0:
                    hits.append((rsx.line_start(s, i), j, k))
                pos = k
        if len(hits) <= nth:
            raise ExtractError('function not found in unit: %s' % qual)
        return hits[nth]
    i, j, k = rsx.find_fn(s, qual)
    return rsx.line_start(s, i), j, k


# --------------------------------------------------------------------------------------------
# injection

class Injector:
    def __init__(self, text, trace):
        self.s = text
        self.trace = trace

    def replace_once(self, old, new, rule='R-armblock'):
        if self.s.count(old) != 1:
            raise ExtractError('anchor lost or ambiguous (%d occurrences): %r' % (self.s.count(old), old[:80]))
        self.s = self.s.replace(old, new)
        self.trace.fire(rule)

    def spec(self, qual, ret, text):
        """Insert requires/ensures after the signature; `ret` names the return value."""
        i, j, k = locate_fn(self.s, qual)
        sig = self.s[i:j]
        if ret:
            sig2, n = re.subn(r'->\s*([^{]+?)\s*$', lambda m: '-> (%s)' % ret, sig.rstrip())
            if n != 1:
                raise ExtractError('cannot name return value of %s' % qual)
            sig = sig2
        self.s = self.s[:i] + sig.rstrip() + '\n/*@spec*/' + text.rstrip('\n') + '\n/*@endspec*/    ' + self.s[j:]

    def proof(self, qual, anchor, proof, occ=0, before=False):
        i, j, k = locate_fn(self.s, qual)
        seg = self.s[i:k]
        if anchor == '$START':
            j0 = j - i
            seg = seg[:j0 + 1] + '\n' + proof + seg[j0 + 1:]
        elif anchor == '$END':
            seg = seg[:-1] + proof + '\n    }'
        elif anchor == '$TAILCALL':
            m2 = re.search(r'\n(\s*)([A-Za-z_][A-Za-z_0-9\.]*\([^()\n]*\))\n\s*\}$', seg)
            if not m2:
                raise ExtractError('$TAILCALL: no tail call in %s' % qual)
            seg = seg[:m2.start()] + '\n' + proof + '\n' + m2.group(1) + m2.group(2) + seg[m2.end(2):]
            self.trace.fire('R-tail')
        elif anchor == '$TAILSTRUCT':
            ms = list(re.finditer(r'\n        Self \{', seg))
            if not ms or not re.search(r'\n        \}\n    \}$', seg):
                raise ExtractError('$TAILSTRUCT: shape changed in %s' % qual)
            m = ms[-1]
            seg = seg[:m.start()] + '\n        let r_ = Self {' + seg[m.end():]
            tail = re.search(r'\n        \}\n    \}$', seg)
            seg = seg[:tail.start()] + '\n        };\n' + proof + '\n        r_\n    }'
            self.trace.fire('R-tail')
        elif anchor == '$TAILMATCH':
            ms = list(re.finditer(r'\n        match ', seg))
            if len(ms) != 1 or not re.search(r'\n        \}\n    \}$', seg):
                raise ExtractError('$TAILMATCH: shape changed in %s' % qual)
            m = ms[0]
            seg = seg[:m.start()] + '\n        let ret_ = match ' + seg[m.end():]
            tail = re.search(r'\n        \}\n    \}$', seg)
            seg = seg[:tail.start()] + '\n        };\n' + proof + '\n        ret_\n    }'
            self.trace.fire('R-tail')
        else:
            pos = -1
            if anchor.startswith('re:'):
                # a pattern instead of a literal line: tolerant of edits inside the anchored statement (which then FAIL the proof
                # instead of losing the anchor)
                ms_ = list(re.finditer(anchor[3:], seg))
                if len(ms_) <= occ:
                    if not hasattr(self.trace, 'lost'):
                        raise ExtractError('anchor lost in %s: %r' % (qual, anchor))
                    self.trace.lost.setdefault(qual, []).append(anchor)
                    return
                anchor = ms_[occ].group(0)
                occ = seg[:ms_[occ].start()].count(anchor)
            for _ in range(occ + 1):
                pos = seg.find(anchor, pos + 1)
                if pos < 0:
                    # the text of this function changed under a proof annotation: the annotation is dropped, the function keeps its
                    # contract (callers are unaffected) and its own obligation is reported undecided by the driver
                    if not hasattr(self.trace, 'lost'):
                        raise ExtractError('anchor lost in %s: %r' % (qual, anchor))
                    self.trace.lost.setdefault(qual, []).append(anchor)
                    return
            if before:
                ls = seg.rfind('\n', 0, pos) + 1
                seg = seg[:ls] + proof.rstrip('\n') + '\n' + seg[ls:]
            else:
                pos += len(anchor)
                seg = seg[:pos] + '\n' + proof + seg[pos:]
        self.s = self.s[:i] + seg + self.s[k:]

    def loop_inv(self, qual, anchor, inv):
        i, j, k = locate_fn(self.s, qual)
        seg = self.s[i:k]
        pos = seg.find(anchor)
        if pos < 0:
            if not hasattr(self.trace, 'lost'):
                raise ExtractError('loop anchor lost in %s: %r' % (qual, anchor))
            self.trace.lost.setdefault(qual, []).append(anchor)
            return
        pos += len(anchor)
        seg = seg[:pos] + '\n' + inv.strip('\n') + '\n        ' + seg[pos:]
        self.s = self.s[:i] + seg + self.s[k:]

    def attr(self, qual, attr):
        i, j, k = locate_fn(self.s, qual)
        self.s = self.s[:i] + '    ' + attr + '\n' + self.s[i:]

    def append_items(self, text):
        marker = '\n} // verus!'
        if self.s.count(marker) != 1:
            raise ExtractError('unit has no verus! end marker')
        self.s = self.s.replace(marker, '\n' + text + marker)


def partition(text, qual, arm_headers, group, trace=None):
    """R-split: put `proof { assume(false); }` at the head of every arm of `qual` not in `group`.
    `arm_headers` maps label -> exact arm header text (ending in '{'); every header must occur
    exactly once inside the function."""
    i, j, k = locate_fn(text, qual)
    seg = text[i:k]
    for lab, hdr in arm_headers.items():
        if seg.count(hdr) != 1:
            raise ExtractError('R-split: arm %s of %s lost/ambiguous: %r' % (lab, qual, hdr))
    for lab, hdr in arm_headers.items():
        if lab in group:
            continue
        seg = seg.replace(hdr, hdr + ' proof { assume(false); } /*R-split*/')
    return text[:i] + seg + text[k:]


def count_match_arms(text, qual, match_head):
    """Number of top-level arms of the `match` starting at `match_head` inside fn `qual`."""
    i, j, k = locate_fn(text, qual)
    seg = text[i:k]
    p = seg.find(match_head)
    if p < 0:
        raise ExtractError('match head lost in %s: %r' % (qual, match_head))
    ob = seg.index('{', p + (match_head.index('{') if '{' in match_head else len(match_head) - 1))
    cb = rsx.match_brace(seg, ob)
    body = seg[ob + 1:cb]
    n = 0
    depth = 0
    idxs = list(rsx.tokens_outside(body))
    for t, (idx, c) in enumerate(idxs):
        if c in '([{':
            depth += 1
        elif c in ')]}':
            depth -= 1
        elif c == '=' and depth == 0 and body[idx:idx + 2] == '=>':
            n += 1
    return n


# --------------------------------------------------------------------------------------------
# running

class Obligation:
    def __init__(self, name, unit, fn_pattern, text_key='base', props=(), rlimit=None, kind='exec', note=''):
        self.name = name          # e.g. alloc::RegisterAllocator::get_register or ...::op_reg_reg_k[A,B]
        self.unit = unit
        self.fn_pattern = fn_pattern
        self.text_key = text_key  # which text variant (partition) to verify
        self.props = list(props)
        self.rlimit = rlimit
        self.kind = kind          # exec | lemma | canary
        self.note = note
        self.result = None


def _parse(out):
    i = out.find('{')
    # the JSON document is the last top-level object printed on stdout
    try:
        d = json.loads(out[i:])
        return d
    except Exception:
        # try from the last line starting with '{'
        for m in reversed(list(re.finditer(r'^\{', out, re.M))):
            try:
                return json.loads(out[m.start():])
            except Exception:
                continue
    return None


RLIMIT_RE = re.compile(r'[Rr]esource limit|rlimit.*exceeded|timed out|timeout')
HARD_ERR_RE = re.compile(r'error(\[E\d+\])?: (?!.*(postcondition|precondition|assertion|invariant|overflow|underflow|index|'
                         r'decreases|unreachable|recommend|not satisfied|failed|might fail|possible|cannot show|resource limit|aborting due))', re.I)


# extra command-line arguments for the unit being run (set by the driver from the unit's `verus_args`, e.g. the crate's edition)
EXTRA_ARGS = []


def run_one(path, fn_pattern, rlimit=None, timeout=900, extra=(), multiple_errors=3):
    cmd = [VERUS, path, '--verify-root', '--verify-function', fn_pattern, '--output-json', '--time',
           '--num-threads', '1', '--multiple-errors', str(multiple_errors), '--triggers-mode', 'silent']
    if rlimit:
        cmd += ['--rlimit', str(rlimit)]
    cmd += list(extra) + list(EXTRA_ARGS)
    t0 = time.time()
    try:
        p = subprocess.run(cmd, stdout=subprocess.PIPE, stderr=subprocess.PIPE, text=True, timeout=timeout,
                           cwd=os.path.dirname(path))
        so, se, rc = p.stdout, p.stderr, p.returncode
    except subprocess.TimeoutExpired as e:
        return {'status': 'undecided', 'reason': 'timeout %ds' % timeout, 'wall_s': time.time() - t0,
                'cmd': ' '.join(cmd), 'stderr': '', 'smt_ms': 0, 'rlimit_used': 0}
    wall = time.time() - t0
    d = _parse(so)
    res = {'wall_s': round(wall, 2), 'cmd': ' '.join(cmd), 'stderr': se[-6000:], 'smt_ms': 0, 'rlimit_used': 0}
    if d is None:
        res.update(status='infra', reason='no JSON from verus (rc=%s): %s' % (rc, (se or so)[-400:]))
        return res
    vr = d.get('verification-results', {})
    tm = d.get('times-ms', {})
    try:
        res['smt_ms'] = tm.get('smt', {}).get('smt-run', 0)
        res['rlimit_used'] = tm.get('smt', {}).get('rlimit-run', 0)
    except Exception:
        pass
    verified = vr.get('verified', 0)
    errors = vr.get('errors', 0)
    res['verified'] = verified
    res['errors'] = errors
    if vr.get('encountered-vir-error') or (vr.get('encountered-error') and errors == 0):
        res.update(status='infra', reason='verus rejected the unit text: ' + _first_error(se))
        return res
    if errors == 0 and verified >= 1 and rc == 0:
        res.update(status='ok', reason='')
        return res
    if errors == 0 and verified == 0:
        res.update(status='infra', reason='zero obligations selected by --verify-function %s: %s' % (fn_pattern, _first_error(se)))
        return res
    if RLIMIT_RE.search(se) and not re.search(r'(postcondition not satisfied|precondition not satisfied|assertion failed|invariant not satisfied|possible arithmetic|index out of|might fail)', se):
        res.update(status='undecided', reason='resource limit')
        return res
    res.update(status='fail', reason=_first_error(se))
    return res


def _first_error(se):
    m = re.search(r'^error[^\n]*\n(?:[^\n]*\n){0,12}', se, re.M)
    return (m.group(0) if m else se[-600:]).strip()


def failed_clauses(se):
    """Short list of failed obligations from verus' human-readable stderr."""
    out = []
    for m in re.finditer(r'^error: ([^\n]+)\n\s*--> ([^\n]+)\n(?:[^\n]*\n){0,6}', se, re.M):
        out.append({'message': m.group(1).strip(), 'at': m.group(2).strip(), 'context': m.group(0)[-500:]})
    return out


def run_obligations(obls, texts, unit_dir, jobs=None, log=None):
    """texts: dict key -> full unit text. Writes files, runs each obligation (parallel)."""
    os.makedirs(unit_dir, exist_ok=True)
    paths = {}
    for key, txt in texts.items():
        p = os.path.join(unit_dir, re.sub(r'[^A-Za-z0-9_]', '_', key) + '.rs')
        with open(p, 'w') as f:
            f.write(txt)
        paths[key] = p
    jobs = jobs or int(os.environ.get('VERIF_JOBS', '14'))

    def work(o):
        r = run_one(paths[o.text_key], o.fn_pattern, rlimit=o.rlimit)
        # Resource-limit outcomes are solver instability, not verdicts: retry as a small portfolio (other Z3 random seeds,
        # then a larger limit).  Any successful run is a proof; a failed proof obligation is reported as such at once.
        base = o.rlimit or 10
        for (rl, seed) in ((base * 3, 1), (base * 3, 2), (base * 8, None)):
            if not (r['status'] == 'undecided' and 'timeout' not in r.get('reason', '')):
                break
            extra = ['--smt-option', 'smt.random_seed=%d' % seed] if seed is not None else []
            r2 = run_one(paths[o.text_key], o.fn_pattern, rlimit=rl, extra=extra)
            r2['retried'] = (r.get('retried') or 0) + 1
            r2['smt_ms'] += r['smt_ms']
            r2['wall_s'] = round(r2['wall_s'] + r['wall_s'], 2)
            r = r2
        r['file'] = paths[o.text_key]
        o.result = r
        if log:
            log('  [%s] %-70s %6.1fs %s' % (r['status'], o.name, r['wall_s'], (r.get('reason') or '').split('\n')[0][:100]))
        return o
    with ThreadPoolExecutor(max_workers=jobs) as ex:
        list(ex.map(work, obls))
    return obls


def fn_spans(text):
    """(name_qualifier_free, start_line, end_line, start_idx) of every `fn` item with a body (innermost spans included)."""
    spans = []
    for m in re.finditer(r'^[ \t]*(?:pub(?:\([a-z]+\))?\s+)?(?:open spec |closed spec |proof |spec )?fn\s+(\w+)', text, re.M):
        try:
            i, j, k = rsx.find_item(text, r'^[ \t]*(?:pub(?:\([a-z]+\))?\s+)?(?:const\s+)?fn\s+%s\b' % re.escape(m.group(1)), m.start(), 'fn')
        except ExtractError:
            continue
        # (find_item moves i up over attribute lines directly above the header)
        if not (i <= m.start() < j):
            continue
        spans.append((m.group(1), text.count('\n', 0, i) + 1, text.count('\n', 0, k) + 1, rsx.line_start(text, i)))
    return spans


def enclosing_type(text, idx):
    """Name of the type whose impl block contains position idx ('' for a free function)."""
    best = ''
    for m in re.finditer(r'^[ \t]*impl\b[^{;]*\{', text, re.M):
        if m.start() > idx:
            break
        ob = m.end() - 1
        try:
            cb = rsx.match_brace(text, ob)
        except Exception:
            continue
        if ob < idx < cb:
            hdr = re.sub(r'\s+', ' ', m.group(0)[:-1]).strip()
            hdr = re.sub(r'^impl\s*(<[^>]*(?:<[^>]*>[^>]*)*>)?\s*', '', hdr)
            hdr = hdr.split(' where ')[0]
            if ' for ' in hdr:
                hdr = hdr.split(' for ', 1)[1]
            mm = re.match(r'(?:\w+::)*(\w+)', hdr.strip())
            best = mm.group(1) if mm else ''
    return best


def precheck(texts, unit_dir, max_rounds=4):
    """Triage of tool limits before any obligation is run: `verus --no-verify` on the base text; when Verus rejects the text
    because one exec function uses a construct outside its subset (an unsupported std function, float `%`, ...), that function
    is turned into `external_body` in every text and reported as *undecided* (never as a violation), so that the other
    functions of the unit stay decidable.  Returns (texts, {fn_name: reason})."""
    os.makedirs(unit_dir, exist_ok=True)
    excluded = {}
    for _ in range(max_rounds):
        p = os.path.join(unit_dir, 'precheck.rs')
        with open(p, 'w') as f:
            f.write(texts['base'])
        try:
            r = subprocess.run([VERUS, p, '--no-verify', '--triggers-mode', 'silent'] + list(EXTRA_ARGS), stdout=subprocess.PIPE, stderr=subprocess.PIPE, text=True,
                               timeout=600, cwd=unit_dir)
        except subprocess.TimeoutExpired:
            return texts, excluded
        se = r.stderr
        m = re.search(r'^error(?:\[E\d+\])?: ([^\n]+)\n\s*--> [^\n:]*precheck\.rs:(\d+):', se, re.M)
        if r.returncode == 0 or not m:
            return texts, excluded
        msg, line = m.group(1), int(m.group(2))
        cands = [sp for sp in fn_spans(texts['base']) if sp[1] <= line <= sp[2]]
        if not cands:
            return texts, excluded
        name, l0, l1, idx = max(cands, key=lambda sp: sp[1])     # innermost
        head = texts['base'][idx:idx + 400]
        if '/*precheck: outside the verifier subset*/' in texts['base'][max(0, idx - 200):idx] and '/*precheck: body dropped*/' not in texts['base'][idx:idx + 4000]:
            # already excluded, but its body does not even type-check against the stand-in types (rustc checks external bodies too):
            # the body of the excluded function is dropped; its obligation stays undecided
            first_line = texts['base'][idx:texts['base'].index('\n', idx)]
            new = {}
            ok = True
            for k_, t in texts.items():
                if t.count(first_line) == 1:
                    pos = t.index(first_line)
                elif t[idx:idx + len(first_line)] == first_line:
                    pos = idx
                else:
                    ok = False
                    break
                try:
                    i_, j_, e_ = rsx.find_item(t, r'^[ \t]*(?:pub(?:\([a-z]+\))?\s+)?(?:const\s+)?fn\s+%s\b' % re.escape(name), pos, 'fn')
                except ExtractError:
                    ok = False
                    break
                new[k_] = t[:j_] + '{ /*precheck: body dropped*/ unimplemented!() }' + t[e_:]
            if not ok:
                return texts, excluded
            texts = new
            continue
        if 'external_body' in texts['base'][max(0, idx - 200):idx] or re.match(r'\s*(?:pub\s+)?(?:open spec|closed spec|proof|spec) fn', head):
            return texts, excluded       # the error is in trusted/spec text: a real infrastructure problem
        first_line = texts['base'][idx:texts['base'].index('\n', idx)]
        new = {}
        for k_, t in texts.items():
            if t.count(first_line) < 1:
                return texts, excluded
            pos = t.index(first_line) if t.count(first_line) == 1 else idx
            new[k_] = t[:pos] + '    #[verifier::external_body] /*precheck: outside the verifier subset*/\n' + t[pos:]
        texts = new
        ty = enclosing_type(texts['base'], idx)
        excluded[(ty + '::' + name) if ty else name] = msg
    return texts, excluded


def scan_assumptions(text):
    """Mechanical scan of the generated unit for anything that is assumption, not proof."""
    found = []
    for m in re.finditer(r'(assume\(false\); \} /\*R-split\*/)|\b(assume|admit)\s*\(([^;]*)\);|#\[verifier::(external_body|external|external_fn_specification|external_type_specification)\]|\b(assume_specification)\b|\baxiom fn\b|#\[verifier::(truncate)\]', text):
        if m.group(1):
            continue
        ls = text.rfind('\n', 0, m.start()) + 1
        le = text.find('\n', m.end())
        line = text[ls:le].strip()
        if 'admit' in line:
            # name the axiom: nearest preceding `proof fn`
            pf = list(re.finditer(r'proof fn (\w+)', text[:m.start()]))
            if pf and pf[-1].group(1) not in line:
                line = 'axiom %s: %s' % (pf[-1].group(1), line)
        # for attributes, show the next line (the item)
        if line.startswith('#['):
            le2 = text.find('\n', le + 1)
            line = line + ' ' + text[le + 1:le2].strip()
        found.append(line[:200])
    return found


def sha(text):
    return hashlib.sha256(text.encode()).hexdigest()[:16]
