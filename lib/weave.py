"""Weaving a proof template into the real text of a function.

The template holds the annotated function with every ghost line (specification, invariant, proof block, `let ghost`) marked by a leading
`/*G*/`; its code lines are aligned (difflib) with the rewritten real lines and the REAL lines are emitted, ghost lines keeping their place
relative to the aligned code line that follows them.  So an edit of the code is verified as edited - it fails its obligation if it breaks
an invariant - instead of being masked by the template or losing an anchor."""
import re, difflib


def norm(s):
    return re.sub(r'\s+', '', s)


def split_headers(text):
    """loop headers and the function signature get their opening brace on a line of its own (the template has invariants in between)"""
    out = []
    for l in text.split('\n'):
        s = l.strip()
        if (s.startswith('for ') or s.startswith('while ')) and s.endswith(' {'):
            ind = l[:len(l) - len(l.lstrip())]
            out.append(l.rstrip()[:-2].rstrip())
            out.append(ind + '{')
        else:
            out.append(l)
    return '\n'.join(out)


# ------------------------------------------------------------------ weaving
GMARK = '/*G*/'


def code_key(l):
    return norm(re.sub(r'//.*$', '', l))


class LostAnchor(Exception):
    pass


def weave(template, real, what):
    """template: annotated function text, ghost lines start with GMARK; real: the rewritten real function text.
    The template's code lines are aligned with the real lines; the real lines are emitted, ghost lines keep their place relative to the
    aligned code line that follows them.  Real lines without a partner are emitted where they stand; template code lines without a partner
    are dropped (their ghost lines stay).  More than a third of the code lines without partner: the function is reported undecided."""
    t_lines = template.split('\n')
    r_lines = [l for l in split_headers(real).split('\n') if l.strip()]
    t_code = [(i, code_key(l)) for i, l in enumerate(t_lines) if not l.startswith(GMARK) and l.strip()]
    sm = difflib.SequenceMatcher(a=[k for _, k in t_code], b=[code_key(l) for l in r_lines], autojunk=False)
    partner = {}      # template line index -> list of real lines to emit in its place
    matched = 0
    for tag, a0, a1, b0, b1 in sm.get_opcodes():
        if tag == 'equal':
            for d in range(a1 - a0):
                partner[t_code[a0 + d][0]] = [r_lines[b0 + d]]
                matched += 1
        elif tag in ('replace', 'insert', 'delete'):
            reals = r_lines[b0:b1]
            tl = [t_code[a][0] for a in range(a0, a1)]
            if tl:
                # spread: first template line gets all real lines of the block (order preserved), the others nothing
                partner[tl[0]] = reals
                for x in tl[1:]:
                    partner[x] = []
            elif reals:
                # pure insertion: attach in front of the next template code line (or at the end)
                nxt = t_code[a0][0] if a0 < len(t_code) else None
                partner.setdefault(('ins', nxt), []).extend(reals)
    if len(t_code) and matched * 3 < len(t_code) * 2:
        raise LostAnchor('%s: only %d of %d code lines of the proof template match the source' % (what, matched, len(t_code)))
    out = []
    for i, l in enumerate(t_lines):
        if ('ins', i) in partner:
            out += partner[('ins', i)]
        if l.startswith(GMARK):
            out.append(l[len(GMARK):])
        elif not l.strip():
            out.append(l)
        else:
            out += partner.get(i, [])
    out += partner.get(('ins', None), [])
    return '\n'.join(out), matched, len(t_code)


