"""E-bounded: native contract runner (/verif/bounded) for functions outside verifier reach and as
counterexample search.  Results are always labelled bounded."""
import json, os, re, subprocess, time
from .driver import Res, ROOT, BUILD, log

CRATE = os.path.join(ROOT, 'bounded')
TARGET = os.path.join(BUILD, 'bounded-target')
BIN = os.path.join(TARGET, 'release', 'verif-bounded')
_built = {}


def build():
    """(Re)build the runner against the current /repo tree (cargo decides what is stale)."""
    if _built.get('done'):
        return _built['err']
    env = dict(os.environ, CARGO_NET_OFFLINE='true', CARGO_TARGET_DIR=TARGET)
    lock = os.path.join(os.environ.get('VERIF_REPO', '/repo'), 'Cargo.lock')
    try:
        import shutil
        shutil.copyfile(lock, os.path.join(CRATE, 'Cargo.lock'))
    except OSError:
        pass
    t0 = time.time()
    p = subprocess.run(['cargo', 'build', '--release', '--offline'], cwd=CRATE, env=env, stdout=subprocess.PIPE, stderr=subprocess.STDOUT, text=True)
    _built['done'] = True
    _built['err'] = None if p.returncode == 0 else p.stdout[-3000:]
    _built['secs'] = time.time() - t0
    log('  [bounded] cargo build --release: %.1fs rc=%d' % (_built['secs'], p.returncode))
    return _built['err']


class _P:
    def __init__(self, rc, out, err):
        self.returncode, self.stdout, self.stderr = rc, out, err


def run_group(cmd, timeout):
    """run the contract runner in its own process group; on timeout the whole group is killed (the runner evaluates some contracts in a
    child process, which must not survive as an orphan spinning on a mutated tree)"""
    import signal
    pr = subprocess.Popen(cmd, stdout=subprocess.PIPE, stderr=subprocess.PIPE, text=True, start_new_session=True)
    try:
        out, err = pr.communicate(timeout=timeout)
        return _P(pr.returncode, out, err)
    except subprocess.TimeoutExpired:
        try:
            os.killpg(pr.pid, signal.SIGKILL)
        except ProcessLookupError:
            pass
        pr.communicate()
        return None


_TIMED_OUT = set()


def run_contract(name, prop, tier, seed, only=None):
    info = {'unit': name, 'engine': 'bounded'}
    if name in _TIMED_OUT:
        # already ran into its time limit in this process (as a leg): do not spend the limit again as a counterexample search
        return [Res('bounded::' + name, 'bounded', 'undecided', [prop], 'native enumeration (verif-bounded)', 0, 'timeout (earlier in this run)', bounded={'space': 'n/a', 'count': 0, 'exhaustive': False})], info
    if only and not any(s in name for s in only):
        return [], info
    err = build()
    backend = 'native enumeration (verif-bounded)'
    if err:
        # the runner is compiled against /repo: if /repo no longer compiles with the hooks, that is infrastructure
        return [Res('bounded::' + name, 'bounded', 'infra', [prop], backend, 0, 'runner does not build: ' + err,
                    bounded={'space': 'n/a', 'count': 0, 'exhaustive': False})], info
    t0 = time.time()
    p = run_group([BIN, name, tier, str(seed)], 3600 if tier == 'thorough' else 900)
    if p is None:
        _TIMED_OUT.add(name)
        return [Res('bounded::' + name, 'bounded', 'undecided', [prop], backend, time.time() - t0, 'timeout',
                    bounded={'space': 'n/a', 'count': 0, 'exhaustive': False})], info
    secs = time.time() - t0
    try:
        d = json.loads(p.stdout)
    except Exception:
        # a crash of the runner outside catch_unwind (abort / signal) while evaluating a contract
        status = 'fail' if p.returncode < 0 or p.returncode in (101, 134, 139) else 'infra'
        return [Res('bounded::' + name, 'bounded', status, [prop], backend, secs,
                    'runner produced no report (rc=%s): %s' % (p.returncode, p.stderr[-1500:]),
                    replay={'signature': 'runner-crash rc=%s' % p.returncode, 'native_cmd': '%s %s %s %s' % (BIN, name, tier, seed)},
                    bounded={'space': 'n/a', 'count': 0, 'exhaustive': False})], info
    b = {'space': d['space'], 'count': d['cases'], 'distinct': d['distinct'], 'exhaustive': d['exhaustive'], 'notes': d.get('notes', [])[:5]}
    info['samples'] = d.get('samples', [])
    log('  [%s] bounded::%-58s %6.1fs %d cases, %d failures' % ('ok' if not d['failures'] else 'fail', name, secs, d['cases'], len(d['failures'])))
    if not d['failures']:
        return [Res('bounded::' + name, 'bounded', 'ok', [prop], backend, secs, bounded=b, extra={'samples': d.get('samples', [])[:2]})], info
    out = []
    os.makedirs(os.path.join(ROOT, 'replays'), exist_ok=True)
    for k, f in enumerate(d["failures"][:60]):
        mcls = re.match(r'\[([^\]]+)\]', f.get('what', ''))
        klass = mcls.group(1) if mcls else None
        rp = os.path.join(ROOT, 'replays', 'bounded_%s_%d.json' % (name, k))
        with open(rp, 'w') as fh:
            json.dump(f['replay'], fh)
        out.append(Res('bounded::' + name, 'bounded', 'fail', [prop], backend, secs if k == 0 else 0,
                       '%s | %s' % (f['signature'][:600], f['what'][:1200]),
                       replay={'signature': f['signature'][:300], 'klass': klass, 'input': f['replay'], 'what': f['what'][:600],
                               'native_cmd': '%s replay %s' % (BIN, rp)},
                       bounded=b))
    return out, info


def cex_search(contracts, res, seed, is_known=None):
    """Counterexample search after a failed or undecided Verus obligation: run the paired bounded contracts.  A failure that is a
    recorded known finding (same obligation and cause class) is NOT a counterexample for the obligation at hand."""
    skipped = 0
    for c in contracts:
        rs, _ = run_contract(c, 'cex', 'quick', seed)
        for r in rs:
            if r.status == 'fail' and r.replay:
                if is_known is not None and is_known(r):
                    skipped += 1
                    continue
                return {'contract': c, 'failing_input': r.replay}
    return {'contracts_tried': contracts, 'failing_input': None, 'known_findings_skipped': skipped}
