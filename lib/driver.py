"""Common driver: runs the legs registered for a property, merges their obligation tables into the
evidence file, prints VIOLATION / KNOWN-FINDING lines, sets the exit code.

exit 0  every obligation of the property discharged (known findings excepted)
exit 1  at least one obligation that is registered as passing fails (VIOLATION line per obligation)
exit 2  infrastructure: lost anchor, verus/kani rejected the generated text, rlimit/timeout, vacuous
        precondition, obligation count changed - never reported as a violation
"""
import json, os, sys, time, importlib, re, traceback
from . import rsx, verus_engine as ve

ROOT = os.path.dirname(os.path.dirname(os.path.abspath(__file__)))
REPO = os.environ.get('VERIF_REPO', '/repo')
BUILD = os.environ.get('VERIF_BUILD', os.path.join(ROOT, '.build'))
REPLAYS = os.path.join(ROOT, 'replays')
EVIDENCE = os.path.join(ROOT, 'evidence')


def log(msg):
    sys.stderr.write(msg + '\n')
    sys.stderr.flush()


class Res:
    """One obligation result, engine independent."""
    def __init__(self, name, engine, status, props, backend, seconds=0.0, detail='', replay=None, kind='exec', bounded=None, extra=None):
        self.name = name
        self.engine = engine      # verus | kani | bounded
        self.status = status      # ok | fail | undecided | infra
        self.props = props
        self.backend = backend    # 'z3 (Verus)', 'cadical (CBMC/Kani)', 'native enumeration'
        self.seconds = seconds
        self.detail = detail
        self.replay = replay      # dict with failing input, if any
        self.kind = kind
        self.bounded = bounded    # None for unbounded proofs, else dict(space=..., count=..., exhaustive=bool)
        self.extra = extra or {}

    def to_json(self):
        d = {'obligation': self.name, 'engine': self.engine, 'status': self.status, 'backend': self.backend,
             'seconds': round(self.seconds, 2), 'kind': self.kind}
        if self.bounded:
            d['bounded'] = self.bounded
        if self.status != 'ok':
            d['detail'] = self.detail[:1500]
        d.update(self.extra)
        return d


# ------------------------------------------------------------------------------------------------
# Verus units

def run_verus_unit(unit_name, prop, tier, only=None):
    """Build unit text from the current /repo tree, run its obligations that support `prop`
    (all of them when prop is None).  Returns (results, info)."""
    mod = importlib.import_module('units.' + unit_name)
    trace = rsx.Trace()
    info = {'unit': unit_name, 'engine': 'verus'}
    t0 = time.time()
    try:
        u = mod.build(REPO, trace)
    except rsx.ExtractError as e:
        return [Res('%s::<extract>' % unit_name, 'verus', 'infra', [prop] if prop else [], 'extractor', 0, 'extraction failed: %s' % e,
                    extra={'extract_failed': True})], info
    texts = u['texts']
    ve.EXTRA_ARGS = list(u.get('verus_args', []))
    info['verus_args'] = list(ve.EXTRA_ARGS)
    obls = [o for o in u['obligations'] if (prop is None or prop in o.props)]
    if only:
        obls = [o for o in obls if any(s in o.name for s in only)]
    expected = getattr(mod, 'EXPECTED_OBLIGATIONS', None)
    info['obligation_count'] = len(u['obligations'])
    results = []
    if expected is not None and len(u['obligations']) != expected:
        results.append(Res('%s::<count>' % unit_name, 'verus', 'infra', [prop] if prop else [], 'extractor', 0,
                           'obligation count changed: registered %d, generated %d' % (expected, len(u['obligations']))))
    udir = os.path.join(BUILD, 'verus', unit_name)
    texts, excluded = ve.precheck(texts, udir)
    # functions whose proof annotations could not be placed (their text changed under an anchor): same treatment as functions
    # outside the subset - the function alone is undecided, its contract stays in force for its callers
    for q_, anchors_ in getattr(trace, 'lost', {}).items():
        key_ = q_
        for o in u['obligations']:
            pat_ = o.fn_pattern.lstrip('*')
            if pat_ == q_ or pat_.endswith('::' + q_) or q_.endswith('::' + pat_):
                key_ = pat_
                break
        excluded.setdefault(key_, 'proof annotation anchor lost: %r' % anchors_[0][:80])
    info['outside_subset'] = excluded
    if excluded:
        keep = []
        def excl_key(pat):
            # obligations name functions as Type::fn (or bare fn); excluded keys are Type::fn of the enclosing impl
            pat = pat.lstrip('*')
            if pat in excluded:
                return pat
            tail = '::'.join(pat.split('::')[-2:])
            return tail if tail in excluded else None
        for o in obls:
            fn = excl_key(o.fn_pattern)
            if fn is not None:
                results.append(Res(o.name, 'verus', 'undecided', o.props, 'z3 (Verus)', 0,
                                   'the function uses a construct outside the verifier subset (%s): not decided by Verus; see the bounded leg' % excluded[fn], kind=o.kind))
                log('  [undecided] %-70s outside the verifier subset: %s' % (o.name, excluded[fn][:80]))
            else:
                keep.append(o)
        obls = keep
    ve.run_obligations(obls, texts, udir, log=log)
    # canaries: every function under contract must FAIL with assert(false) injected at its start
    canaries = []
    can_fns = u.get('canary_fns', [])
    if can_fns and not only:
        inj = ve.Injector(texts['base'], rsx.Trace())
        ok_fns = []
        for f in can_fns:
            if f in excluded or '::'.join(f.split('::')[-2:]) in excluded:
                continue
            try:
                inj.proof(f, '$START', '        proof { assert(false); } /*canary*/')
                ok_fns.append(f)
            except rsx.ExtractError as e:
                results.append(Res('%s::canary::%s' % (unit_name, f), 'verus', 'infra', [prop] if prop else [], 'extractor', 0, str(e), kind='canary'))
        cpath = os.path.join(udir, 'canary.rs')
        with open(cpath, 'w') as fh:
            fh.write(inj.s)
        from concurrent.futures import ThreadPoolExecutor

        def cw(f):
            r = ve.run_one(cpath, f, multiple_errors=0)
            return f, r
        with ThreadPoolExecutor(max_workers=int(os.environ.get('VERIF_JOBS', '14'))) as ex:
            for f, r in ex.map(cw, ok_fns):
                reached = r['status'] == 'fail' and 'assertion failed' in r.get('stderr', '')
                canaries.append({'function': f, 'reachable': reached})
                if not reached:
                    st = 'infra'
                    results.append(Res('%s::canary::%s' % (unit_name, f), 'verus', st, [prop] if prop else [], 'z3 (Verus)', r['wall_s'], kind='canary', detail=
                                       'vacuity guard: assert(false) at the start of %s did not fail (%s): precondition unsatisfiable or function not selected' % (f, r['status'])))
    for o in obls:
        r = o.result
        detail = ''
        if r['status'] != 'ok':
            fc = ve.failed_clauses(r.get('stderr', ''))
            detail = (r.get('reason') or '') + '\n' + '\n'.join('%s @ %s' % (c['message'], c['at']) for c in fc[:4])
        results.append(Res(o.name, 'verus', r['status'], o.props, 'z3 (Verus)', r['wall_s'], detail, kind=o.kind,
                           extra={'smt_ms': r.get('smt_ms', 0), 'file': r.get('file'), 'cmd': r.get('cmd'), 'stderr': r.get('stderr', '') if r['status'] != 'ok' else ''}))
    info.update({
        'rules_fired': trace.rules,
        'dropped': trace.dropped,
        'items_extracted': ['%s: %s' % it for it in trace.items],
        'assumptions': sorted(set(ve.scan_assumptions(texts['base']))),
        'partition_texts': len(texts) - 1,
        'canaries': canaries,
        'text_sha256_16': ve.sha(texts['base']),
        'build_wall_s': round(time.time() - t0, 1),
    })
    return results, info


# ------------------------------------------------------------------------------------------------
# known findings

def load_known():
    p = os.path.join(ROOT, 'known_findings.json')
    if not os.path.exists(p):
        return {'findings': [], 'fixed': []}
    return json.load(open(p))


def match_known(known, prop, res):
    for f in known.get('findings', []):
        if f.get('property') != prop:
            continue
        if f.get('obligation') != res.name:
            continue
        # a finding is identified by the obligation AND the specific failing input (`input_signature`) or call site
        # (`class`: the failure class the contract computes from the CAUSE, e.g. `not-enclosing:MulRegReg:nan-corner`)
        if 'class' in f:
            if f['class'] == (res.replay or {}).get('klass'):
                return f
            continue
        want = f.get('input_signature')
        have = (res.replay or {}).get('signature')
        if want is not None and want == have:
            return f
    return None


# ------------------------------------------------------------------------------------------------
# finishing

def write_replay(prop, res, cex=None):
    os.makedirs(REPLAYS, exist_ok=True)
    fn = re.sub(r'[^A-Za-z0-9_.-]', '_', '%s__%s' % (prop, res.name))[:150] + '.json'
    p = os.path.join(REPLAYS, fn)
    d = {'property': prop, 'obligation': res.name, 'engine': res.engine, 'backend': res.backend,
         'verifier_output': (res.extra.get('stderr') or res.detail)[-6000:], 'detail': res.detail[:3000],
         'generated_file': res.extra.get('file'), 'cmd': res.extra.get('cmd'),
         'failing_input': res.replay, 'counterexample_search': cex}
    with open(p, 'w') as f:
        json.dump(d, f, indent=1)
    return p


def finish(prop, tier, seed, level, results, infos, t0, explanation, trusted_base, assumptions, checker_cmd, cex_search=None, samples_extra=None):
    """Write evidence, print lines, return exit code."""
    known = load_known()
    # A lost anchor / changed source shape leaves the Verus obligations undecided (exit 2).  Before settling for that,
    # run the paired counterexample search: a concrete failing input on the real code is a violation in its own right.
    if cex_search:
        # (the vacuity guards are not obligations of the code: prefer a real obligation as the one the failing input is reported for)
        cands_ = [r for r in results if r.status in ('infra', 'undecided') and r.engine == 'verus']
        cands_.sort(key=lambda r: r.kind == 'canary')
        for r in cands_:
            if True:
                try:
                    cex = cex_search(r)
                except Exception as e:
                    cex = {'error': str(e)}
                if cex and cex.get('failing_input'):
                    r.status = 'fail'
                    r.replay = cex['failing_input']
                    r.detail = 'the contract text no longer matches the source (%s); the paired bounded contract `%s` finds a failing input on the real code: %s' % (
                        r.detail.split('\n')[0][:200], cex.get('contract'), (cex['failing_input'].get('what') or '')[:400])
                break   # one search is enough: it is the same contract family
    violations = []
    known_hits = []
    infra = []
    for r in results:
        if r.status == 'fail':
            k = match_known(known, prop, r)
            if k:
                known_hits.append((r, k))
            else:
                violations.append(r)
        elif r.status in ('infra', 'undecided'):
            infra.append(r)
    proof_res = [r for r in results if r.bounded is None and r.kind != 'canary']
    bounded_res = [r for r in results if r.bounded is not None]
    n_ob = len(proof_res)
    n_ok = sum(1 for r in proof_res if r.status == 'ok')
    by_backend = {}
    for r in results:
        b = by_backend.setdefault(r.backend, {'obligations': 0, 'discharged': 0, 'seconds': 0.0})
        b['obligations'] += 1
        b['discharged'] += 1 if r.status == 'ok' else 0
        b['seconds'] = round(b['seconds'] + r.seconds, 1)
    samples = [r.to_json() for r in proof_res[:3]] + [r.to_json() for r in bounded_res[:2]]
    for r in violations[:5]:
        samples.append(r.to_json())
    if samples_extra:
        samples += samples_extra
    cov = {
        'obligations': n_ob,
        'discharged': n_ok,
        'checker_cmd': checker_cmd,
        'trusted_base': trusted_base,
        'explanation': explanation,
        'by_backend': by_backend,
        'functions_under_contract': sorted(set(re.sub(r'\[.*$', '', r.name) for r in proof_res if r.kind == 'exec')),
        'lemmas': sum(1 for r in proof_res if r.kind == 'lemma'),
        'bounded': [dict(r.to_json(), **{'label': 'bounded stand-in, not counted as proved'}) for r in bounded_res],
        'units': infos,
        'undecided_or_infra': [r.to_json() for r in infra],
        'known_findings_hit': [{'obligation': r.name, 'finding': k.get('what')} for r, k in known_hits],
        'samples': samples,
        # generic keys (accepted fallback for any level)
        'evaluations': n_ob + sum((r.bounded or {}).get('count', 0) for r in bounded_res),
        'distinct_nontrivial': n_ob + sum((r.bounded or {}).get('distinct', (r.bounded or {}).get('count', 0)) for r in bounded_res),
        'rule': 'one evaluation per proof obligation (a function or lemma under contract, or one path partition of it) plus one per enumerated case of the bounded legs; all are distinct by construction',
        'exhaustive': all((r.bounded or {}).get('exhaustive', False) for r in bounded_res) if bounded_res else False,
    }
    ev = {
        'property_id': prop, 'tier': tier, 'seed': seed, 'level': level,
        'coverage': cov,
        'assumptions': assumptions + sorted(set(a for i in infos for a in i.get('assumptions', []))),
        'wall_s': round(time.time() - t0, 1),
        'violations': len(violations),
    }
    os.makedirs(EVIDENCE, exist_ok=True)
    with open(os.path.join(EVIDENCE, prop + '.json'), 'w') as f:
        json.dump(ev, f, indent=1)
    seen_k = set()
    for r, k in known_hits:
        if id(k) in seen_k:
            continue
        seen_k.add(id(k))
        print('KNOWN-FINDING: property=%s %s' % (prop, k.get('what')))
    reported = set()
    for r in violations:
        if r.name in reported:
            continue   # one VIOLATION line per obligation (further failing inputs of the same obligation are in the evidence file)
        reported.add(r.name)
        cex = None
        if cex_search and r.replay is None:
            try:
                cex = cex_search(r)
            except Exception as e:   # search is best effort
                cex = {'error': str(e)}
            if cex and cex.get('failing_input'):
                r.replay = cex['failing_input']
        p = write_replay(prop, r, cex)
        tail = '' if r.replay else ' no-failing-input-found'
        print('FAILED-OBLIGATION property=%s engine=%s obligation=%s' % (prop, r.engine, r.name))
        print('VIOLATION property=%s replay=%s%s' % (prop, p, tail))
    for r in infra:
        log('UNDECIDED/INFRA %s: %s: %s' % (r.status, r.name, r.detail.split('\n')[0][:300]))
    sys.stdout.flush()
    if violations:
        return 1
    if infra:
        return 2
    return 0
