"""Per-property plan: which legs decide which property (DESIGN.md section 4)."""
import os, sys, time, json
from . import driver
from .driver import Res, log

TRUSTED = [
    'Verus 0.2026.09.13 + Z3 (verifier soundness)', 'rustc',
    'extractor drop/rewrite rules of lib/rsx.py and the unit builders (R-table, R-iter, R-let, R-tail, R-armblock, R-macro, R-revcollect, R-split); listed with fire counts under coverage.units[*].rules_fired',
]

PLAN = {}


def leg_verus(unit):
    return ('verus', unit)


def leg_kani(suite):
    return ('kani', suite)


def leg_bounded(contract):
    return ('bounded', contract)


PLAN['C01'] = {
    'level': 'proof',
    'legs': [leg_verus('alloc'), leg_bounded('rev_range'), leg_bounded('interp_point'), leg_bounded('interp_bulk'), leg_bounded('flatten'), leg_bounded('alloc_cex')],
    'explanation': (
        'Top theorem proved by Verus on the real text of alloc.rs/lru.rs/reg_tape.rs (extracted mechanically each run): for every N in 3..=255, '
        'every well-formed SSA tape and every initial register/memory contents, RegTape::new::<N> yields a register tape whose outputs equal the SSA '
        'tape\'s outputs as terms over uninterpreted per-opcode functions (bit-for-bit equality is equality of terms). Every allocator function, the '
        '11-arm spill table and the 49 dispatch arms are separate obligations; callers see only callee contracts. Bounded stand-ins (labelled, not '
        'counted as proved): the VM interpreter loops per RegOp variant against the reference opcode meaning, and SsaTape::new (hash maps/closures).'),
    'assumptions': [
        'ssa_wf(SsaTape::new(..)) - flattening is checked only by the bounded leg `flatten`',
        'the VM interpreter implements each RegOp variant as the reference meaning of the same-named opcode - bounded leg `interp_*` only',
        'f32 values treated as opaque terms: un_sem/bin_sem uninterpreted (no floating-point reasoning is needed or done)',
    ],
}


def run(prop, tier, seed, only=None):
    t0 = time.time()
    spec = PLAN[prop]
    results, infos = [], []
    cmds = []
    legs_filter = os.environ.get('VERIF_LEGS')
    for kind, name in spec['legs']:
        if legs_filter and kind not in legs_filter.split(','):
            continue
        if kind == 'verus':
            r, info = driver.run_verus_unit(name, prop, tier, only)
            cmds.append('verus <unit>.rs --verify-root --verify-function <F> --output-json --time (one process per obligation, unit `%s`)' % name)
        elif kind == 'kani':
            from . import kani_engine
            r, info = kani_engine.run_suite(name, prop, tier, only)
            cmds.append('cargo kani --harness <H> (suite `%s`)' % name)
        elif kind == 'bounded':
            from . import bounded_engine
            r, info = bounded_engine.run_contract(name, prop, tier, seed, only)
            cmds.append('verif-bounded %s (native contract runner)' % name)
        else:
            raise SystemExit('unknown leg kind %s' % kind)
        results += r
        infos.append(info)
    cex = None
    if spec.get('cex'):
        from . import bounded_engine
        cex = lambda res: bounded_engine.cex_search(spec['cex'], res, seed)
    return driver.finish(prop, tier, seed, spec['level'], results, infos, t0, spec['explanation'], TRUSTED + spec.get('trusted_extra', []),
                         spec['assumptions'], '; '.join(cmds), cex_search=cex)


def replay(prop, path):
    d = json.load(open(path))
    print(json.dumps({k: d.get(k) for k in ('property', 'obligation', 'engine', 'failing_input')}, indent=1))
    fi = d.get('failing_input')
    if fi and fi.get('native_cmd'):
        import subprocess
        log('replaying natively: %s' % fi['native_cmd'])
        return subprocess.call(fi['native_cmd'], shell=True)
    print('no failing input recorded (no-failing-input-found); verifier output follows')
    print(d.get('verifier_output', '')[-3000:])
    return 1
