"""Per-property plan: which legs decide which property (DESIGN.md section 4)."""
import os, sys, time, json
from . import driver
from .driver import Res, log

TRUSTED = [
    'Verus 0.2026.09.13 + Z3 (verifier soundness)', 'rustc',
    'extractor drop/rewrite rules of lib/rsx.py and the unit builders (R-table, R-iter, R-let, R-tail, R-armblock, R-macro, R-revcollect, R-split); listed with fire counts under coverage.units[*].rules_fired',
]

PLAN = {}

HOOK_COMMITS = ['3186200']

NOT_APPLICABLE = {
 'C02': 'pending: bounded JIT-vs-interpreter leg not built yet (emitted machine code is outside verifier reach; only a bounded stand-in is possible)',
 'C03': 'pending: Kani/Verus interval units not built yet',
 'C04': 'pending: simplify unit not built yet',
 'C05': 'pending: gradient units not built yet',
 'C06': 'the deciding functions (render_tile_recurse, render_tiles) are generic over Function, drive nalgebra and rayon, and their postcondition quantifies over an evaluator; neither verifier can take them, and contracts on the integer helpers alone do not carry the property',
 'C07': 'same code shape as C06 plus get_unchecked_mut scratch indexing; no contract within reach decides occlusion bookkeeping across a trait-generic recursion',
 'C08': 'a global combinatorial and geometric statement over all octrees (manifoldness of the dual walk, QEF in f32); per-cell tables are finite and checkable but do not imply it',
 'C09': 'a property of rayon schedules and a relaxed atomic; Kani has no threads, Verus would need the code rewritten onto its permission types',
 'C10': 'pending: reset/new contracts exist in the alloc unit; evaluator reuse leg not built yet',
 'C11': 'pending: totality units not built yet',
 'C12': 'every constructor goes through a HashMap-backed arena, IntoNode generics and float-literal match patterns; Verus rejects the constructs and Kani symbolic execution of the arena is out of budget',
 'C13': 'Context::import is an explicit-stack walker over Arc<TreeOp> with a pointer-keyed cache and nalgebra affine products; equality is only approximate in f32',
 'C14': 'VarMap is a HashMap with the entry API, eval_raw iterates a chained iterator and applies a nalgebra projective transform; only "simplify keeps vars" is within reach and is covered under C04',
 'C15': 'pending: bytecode leg not built yet',
 'C16': 'closed-form real geometry with trigonometry; the verifier has no real-analysis semantics for f32 libm calls',
 'C17': 'the semantics lives in the rhai interpreter (external, dynamically typed, reflection-driven)',
 'C18': 'pending: view harnesses not built yet',
 'C19': 'Levenberg-Marquardt over nalgebra DMatrix, SVD pseudo-inverse and HashMap bookkeeping; numeric convergence is not a contract Verus/Kani can discharge',
 'C20': 'pending: trace record legs not built yet',
}


VM_NOTE = ('Unit `vm` (Verus, real text of vm/mod.rs): VmPointEval::eval, VmIntervalEval::eval, VmFloatSliceEval::eval and VmGradSliceEval::eval are proved, for every register tape that satisfies tape_ok (operand indices in range, at most choice_count choice clauses) and every input, to compute exactly the run of the reference step function generated from the RegOp variant list (which slot is read, which written, operand order, which choice slot is OR-ed), with the reference meaning of each opcode written down once (f32: IEEE op / named libm function / FloatExt function; Interval and Grad: the method of that name), never to panic, and to return the documented argument error as the only failure. ')


def leg_verus(unit):
    return ('verus', unit)


def leg_kani(suite):
    return ('kani', suite)


def leg_bounded(contract):
    return ('bounded', contract)


PLAN['C01'] = {
    'level': 'proof',
    'technique': 'contract-based deductive verification (Verus) of alloc.rs/lru.rs/reg_tape.rs and of the VM interpreter loops of vm/mod.rs on mechanically extracted real text; bounded native contract runner for SsaTape::new and as a second opinion on the interpreters',
    'level_text': 'Unbounded proof (all programs, all N in 3..=255, all initial register contents) that register allocation preserves tape semantics, function by function against contracts; unbounded proof that the single-point and many-point VM interpreters execute every register tape exactly as the reference step function says (all 54 RegOp arms each, the many-point one column by column against the single-point semantics). The graph flattening (SsaTape::new: hash maps, closures) is outside verifier reach and is covered by a labelled bounded stand-in only.',
    'level_note': 'Trusted: Verus+Z3, the extractor rewrite rules, assume_specification for mem::take and slice::fill, assume(slot_count < u32::MAX); the stubs and axioms of unit vm (f32 library methods and FloatExt functions as uninterpreted functions, f32 arithmetic total: ax_float_total, VarMap opaque, check_bulk_arguments stub, copy_prefix model of range copy_from_slice, resize_with length spec). Assumed between units: tape_ok of the tapes RegTape::new produces (register/memory ranges are part of the allocator invariant proved in unit alloc; output/input indices and the choice count come from SsaTape::new: bounded). Bounded only: SsaTape::new contract, N in {1,2}; interp_point/interp_bulk stay as an independent native cross-check of the reference meanings.',
    'legs': [leg_verus('alloc'), leg_verus('vm'), leg_verus('context'), leg_bounded('rev_range'), leg_bounded('interp_point'), leg_bounded('interp_bulk'), leg_bounded('flatten'),
             leg_bounded('alloc_cex'), leg_bounded('alloc_small_n')],
    'cex': ['alloc_cex', 'flatten', 'interp_point'],
    'explanation': (
        'Top theorem proved by Verus on the real text of alloc.rs/lru.rs/reg_tape.rs (extracted mechanically each run): for every N in 3..=255, '
        'every well-formed SSA tape and every initial register/memory contents, RegTape::new::<N> yields a register tape whose outputs equal the SSA '
        'tape\'s outputs as terms over uninterpreted per-opcode functions (bit-for-bit equality is equality of terms). Every allocator function, the '
        '11-arm spill table and the 49 dispatch arms are separate obligations; callers see only callee contracts. Bounded stand-ins (labelled, not '
        'counted as proved): SsaTape::new (hash maps/closures). ' + VM_NOTE),
    'assumptions': [
        'ssa_wf(SsaTape::new(..)) - flattening is checked only by the bounded leg `flatten`',
        'the reference meaning of an opcode in unit vm is a table written from the opcode documentation (P_UN/P_BIN/P_CH in units/vm/spec.py); the bounded legs interp_* check the same interpreters natively against an independently written table',
        'tape_ok(tape) for tapes produced by RegTape::new/simplify: operand ranges proved in unit alloc (invariant clause op_ok), output/input indices and choice count assumed from SsaTape::new (bounded leg flatten)',
        'f32 values treated as opaque terms: un_sem/bin_sem uninterpreted (no floating-point reasoning is needed or done)',
    ],
}


def run(prop, tier, seed, only=None):
    t0 = time.time()
    spec = PLAN[prop]
    results, infos = [], []
    cmds = []
    legs_filter = os.environ.get('VERIF_LEGS')
    for kind, name in spec['legs']:
        if legs_filter and kind not in legs_filter.split(','):
            continue
        if kind == 'verus':
            r, info = driver.run_verus_unit(name, prop, tier, only)
            cmds.append('verus <unit>.rs --verify-root --verify-function <F> --output-json --time (one process per obligation, unit `%s`)' % name)
        elif kind == 'kani':
            from . import kani_engine
            r, info = kani_engine.run_suite(name, prop, tier, only)
            cmds.append('cargo kani --harness <H> (suite `%s`)' % name)
        elif kind == 'bounded':
            from . import bounded_engine
            r, info = bounded_engine.run_contract(name, prop, tier, seed, only)
            cmds.append('verif-bounded %s (native contract runner)' % name)
        else:
            raise SystemExit('unknown leg kind %s' % kind)
        results += r
        infos.append(info)
    cex = None
    if spec.get('cex'):
        from . import bounded_engine
        known_ = driver.load_known()
        cex = lambda res: bounded_engine.cex_search(spec['cex'], res, seed, is_known=lambda r: driver.match_known(known_, prop, r) is not None)
    return driver.finish(prop, tier, seed, spec['level'], results, infos, t0, spec['explanation'], TRUSTED + spec.get('trusted_extra', []),
                         spec['assumptions'], '; '.join(cmds), cex_search=cex)


def replay(prop, path):
    d = json.load(open(path))
    print(json.dumps({k: d.get(k) for k in ('property', 'obligation', 'engine', 'failing_input')}, indent=1))
    fi = d.get('failing_input')
    if fi and fi.get('native_cmd'):
        import subprocess
        log('replaying natively: %s' % fi['native_cmd'])
        return subprocess.call(fi['native_cmd'], shell=True)
    print('no failing input recorded (no-failing-input-found); verifier output follows')
    print(d.get('verifier_output', '')[-3000:])
    return 1


PLAN['C18'] = {
    'level': 'other',
    'technique': 'Kani full-domain harnesses (contract = assume pre / assert post) on the real fidget-gui View2/View3, with native replay of counterexamples',
    'level_text': 'Partial: the exact clauses of the property (frame conditions of rotate/zoom, pitch range, changed-flag false on a bit-identical view) are proved for ALL f32 inputs by loop-free Kani harnesses on the real code; the approximate clauses (grabbed point stays under the cursor, matrix = translate x rotate x scale) are float identities that hold only approximately and are not decided.',
    'level_note': 'Trusted: Kani/CBMC/CaDiCaL bit-precise f32 model for comparisons, + - * and clamp (the yaw `%` is modelled nondeterministically by CBMC, so nothing is claimed about the yaw range); nalgebra code is verified as compiled. Not covered: sequences of interactions through Canvas2/Canvas3 (integer screen positions through ImageSize transforms), translate (CBMC does not finish).',
    'legs': [leg_kani('leaf'), leg_bounded('view')],
    'explanation': 'Each harness quantifies over every f32 value of centre, scale, yaw, pitch, amount and cursor positions; harness bodies are generic over the input source so that a counterexample is re-executed natively against the real crate before it is reported.',
    'assumptions': ['single-step contracts only: View2/View3 methods, not Canvas event sequences', 'clauses about approximate float identities are not covered'],
}
del NOT_APPLICABLE['C18']


PLAN['C04'] = {
    'level': 'proof',
    'technique': 'contract-based deductive verification (Verus) of VmData::simplify/VmWorkspace on real text, through the proved contract of RegisterAllocator::op; Kani full-domain harnesses for the trace hypothesis; bounded native contract runner for value preservation and JIT traces',
    'level_text': 'S1 proved unbounded: for every well-formed parent tape, every trace of the right length without Unknown, every register budget M in 3..=255 and any previous workspace contents, simplify cannot panic (all 26 unwrap/assert/panic sites, 11 overflow and 8 index obligations, and the allocator preconditions call by call) and preserves vars and the output count; the hypothesis `a decided choice is valid at every point of the box` is proved for all f32/intervals by Kani. S3 proved unbounded at the SSA level: whenever the trace is valid for the parent run (the value of every decided clause is bit for bit that of the selected operand), the simplified SSA tape yields exactly the outputs of the parent from any initial environment (simulation invariant `ssim`, one semantic transition lemma per kind of arm, all 51 arms). The bounded contract simplify_sem additionally runs real traces from all four tracing evaluators through simplify and compares values natively.',
    'level_note': 'Trusted: Verus+Z3, Kani/CBMC, extractor rewrite rules (R-orpat, R-iter, R-revnext, R-constdefault, ...). Assumed: parent tape is strict SSA (established by SsaTape::new: bounded leg flatten) and choice_count equals the number of choice clauses. Proved in unit vm: the VM tracing evaluators record exactly the per-clause choice of each clause, in tape order. Not mechanised: the lifting of the per-clause validity (Kani) through the proved run equation to the SSA-level hypothesis tp (needs the order-preservation of RegTape::new, which is not exported by unit alloc); bounded: simplify_sem runs real traces end to end. JIT traces bounded, (the register tape of the simplified function is proved to compute its SSA tape for the new budget M, from any initial register/memory contents, by the same simulation argument as RegTape::new).',
    'legs': [leg_verus('alloc'), leg_verus('simplify'), leg_verus('vm'), leg_verus('handle'), leg_kani('leaf'), leg_bounded('simplify_sem'), leg_bounded('jit_trace'), leg_bounded('render_handle')],
    'explanation': 'Loop invariant sinv (P1, COV, INJ, P3, Q of DESIGN.md B.3) over (bind, count, allocator allocations, ops, k) plus the LEN equation ops_out.len + live == outputs + count; one transition lemma per kind of arm (skip, alias, emit with 0/1/2 renamed arguments, output); the 51 arms of the loop body are verified in 13 path-partitioned runs.',
    'assumptions': ['ssa_strict(parent tape) and choice_count == #choice clauses (SsaTape::new contract, bounded leg of C01)',
                    'the trace hypothesis tp (a decided choice selects an operand whose value equals the clause value bit for bit) is proved per clause by Kani and enumerated per tape by trace_vm/jit_trace; known findings: signed zero into Mix/Rand and NaN corners dropped by interval mul make an interval trace invalid at some points (known_findings.json)'],
    'cex': ['simplify_sem', 'alloc_cex'],
}
del NOT_APPLICABLE['C04']

PLAN['C20'] = {
    'level': 'proof',
    'technique': 'Kani full-domain harnesses for per-clause choice meaning and Choice bit algebra; Verus proofs of the VM tracing and bulk interpreters (one trace entry per choice clause in tape order, OR-ed into a cleared slot, trace returned iff some clause is decided; output matrix shape) and of the counts carried by simplify; bounded native contract runner for JIT traces',
    'level_text': 'Proved for all inputs (Kani, loop-free): every f32/Interval *_choice result is Left/Right/Both and is what the operand values imply; Both iff tie or NaN for min/max; and/or never Both on points; OR-ing into a cleared slot records exactly the clause choice. Proved for all tapes and inputs (Verus, real text of VmPointEval::eval / VmIntervalEval::eval): the trace has exactly choice_count entries, the k-th choice clause in execution order ORs its choice into entry k of a trace cleared to Unknown (the real Choice::bitor_assign is verified against the bit-field algebra), `simplify` is the disjunction of `choice != Both` over all clauses and a trace is returned iff it is true; for the bulk interpreters the result has exactly output_count rows of exactly `size` samples and every column is the single-point run. JIT == VM traces and JIT output shapes are bounded stand-ins (emitted code is outside verifier reach).',
    'level_note': 'Trusted: Kani/CBMC/CaDiCaL, Verus+Z3, extractor rewrite rules (R-slotarray, R-choiceiter, R-iter, R-boolor, R-copyprefix, R-itermut, R-deref, R-tail ...), the stubs/axioms of unit vm. Bounded only: JIT traces and JIT output array shapes; Function::size/vars/output_count agreement.',
    'legs': [leg_kani('leaf'), leg_verus('simplify'), leg_verus('vm'), leg_verus('jit'), leg_bounded('interp_point'), leg_bounded('trace_vm'), leg_bounded('jit_trace'),
             leg_bounded('interp_bulk'), leg_bounded('jit_bulk'), leg_bounded('reuse')],
    'explanation': 'Per-clause meaning is a complete proof over all 2^64 operand pairs (Kani); the tape-level statements for the VM evaluators are Verus postconditions of the real eval functions (unit vm); JIT tape-level statements are enumerated by the bounded runner.',
    'cex': ['simplify_sem', 'jit_trace', 'jit_bulk', 'reuse'],
    'assumptions': ['JIT tape-level clauses are bounded stand-ins (jit_trace, jit_bulk)', 'tape_ok(tape): the number of choice clauses of the register tape is at most choice_count (assumed from SsaTape::new/RegTape::new; simplify proves choice_count == number of choice clauses of its SSA result)'],
}
del NOT_APPLICABLE['C20']

PLAN['C11'] = {
    'level': 'proof',
    'technique': 'Verus total-mode proofs (every assert!/panic!/unwrap/index/overflow in alloc.rs, lru.rs, reg_tape.rs, simplify is an obligation); Kani full-domain totality harnesses for Interval operations; bounded native contract runner for the evaluators',
    'level_text': 'Proved: the compiler core (register allocation for N in 3..=255, simplify) cannot panic on well-formed tapes; Interval select/round operations return normally on ALL valid intervals including infinite bounds and the NaN interval (Kani, complete); add/sub/scale/neg are total on all valid intervals (Verus on the real text, under the float axioms: after the repair the obligation is monotonicity of one f32 operation, which CBMC cannot decide). The four VM evaluator loops cannot panic on tapes satisfying tape_ok: every slot/output/input index, every advance of the choice cursor and every range copy is an obligation of the Verus proofs of the real eval functions (unit vm), and the only failure is the documented argument error. The Shape-level wrappers ShapeTracingEval::eval_raw and ShapeBulkEval::eval_raw cannot panic either (unit shape: their unreachable!() arms are proved unreachable, whatever a reused evaluator object held).  The remaining Interval arithmetic and the JIT are bounded stand-ins.',
    'level_note': 'Trusted: Verus+Z3, Kani/CBMC. Not covered: stack exhaustion, allocation failure. Bounded only: JIT evaluators, Interval/Grad arithmetic other than the functions of unit interval on overflow grids, VarMap::check_bulk_arguments (stub in unit vm).',
    'legs': [leg_verus('alloc'), leg_verus('simplify'), leg_verus('interval'), leg_verus('vm'), leg_verus('shape'), leg_verus('varmap'), leg_verus('jit'), leg_kani('leaf'), leg_bounded('interp_interval'), leg_bounded('interval_sweep'), leg_bounded('total'), leg_bounded('jit_interval_valid')],
    'cex': ['total', 'interp_interval', 'interval_sweep', 'alloc_cex', 'simplify_sem'],
    'explanation': 'Totality of the integer state machines is a corollary of their total-mode proofs; the genuine defect found here (Interval add/sub/scale panicking on NaN bounds) is repaired in /repo (fix: 081f714).',
    'assumptions': ['square/trig/atan2/rem_euclid totality of Interval: bounded leg only (CBMC models sqrtf/powi nondeterministically); Mul<Interval>/Div<Interval>/sqrt/recip totality is proved in unit interval under the float axioms'],
}
del NOT_APPLICABLE['C11']

PLAN['C03'] = {
    'level': 'proof',
    'technique': 'Kani full-domain harnesses for local interval enclosure of comparison/select operations; bounded native contract runner (interval interpreter vs reference point semantics) for arithmetic and transcendental operations',
    'level_text': 'Proved for all intervals and all member points (Kani, bit-precise, loop-free): min, max, and, or, not, compare, abs, neg enclose the point result, with the NaN-interval convention. Proved in Verus on the real text under the stated float axioms (monotone correctly-rounded + - *, NaN propagation, total order): Add, Sub, Mul<f32>, Neg and the monotone unary functions exp, atan, sqrt, ln, recip, floor, ceil, round are total on all valid intervals and enclose exactly (0 ulp); Mul<Interval> and Div<Interval> (the four corner products / quotients, unrolled by R-unroll, proof woven into the real text) are total on all valid intervals including infinite bounds and NaN corners, and enclose the product / quotient of members whenever the four bounds are finite (for Div: and the divisor interval excludes zero, otherwise the NaN interval is returned) - with an infinite bound a 0*inf corner is NaN and f32::min/max drop it, which is known finding K4, so nothing is claimed there. The interpreter dispatch is proved (unit vm: VmIntervalEval::eval applies, for every RegOp variant, the Interval method of that name to the right operands in the right order and writes the right slot). The remaining arithmetic and transcendental operations and the JIT are bounded stand-ins on a stated grid.',
    'level_note': 'Trusted: Kani/CBMC, Verus+Z3 with the float axioms of unit interval. Axioms added for Mul/Div: ax_minmax (f32::min/max ignore a NaN operand, otherwise return one operand in order), ax_fin, ax_mul_fin, ax_div_fin (finite operands give a number), ax_mul_comm, ax_div (total), ax_div_mono (monotone in the numerator for a divisor of one sign, antitone/monotone in the divisor on one side of zero). Bounded only: square, trig, atan2, rem_euclid, mix, rand; Mul/Div with infinite bounds; JIT; the composition of per-operation enclosure over a whole tape is mechanised for an abstract relation (unit vm, lemma_enc_run); that each real operation respects the real relation is established per operation by the other legs (known findings K1, K4 are where it does not). Out of scope: wgsl shader.',
    'legs': [leg_kani('leaf'), leg_verus('interval'), leg_verus('vm'), leg_verus('shape'), leg_bounded('interp_interval'), leg_bounded('interval_sweep'), leg_bounded('jit_interval'), leg_bounded('shape_transform')],
    'cex': ['interp_interval', 'interval_sweep'],
    'explanation': 'The local obligation per opcode is exactly the observation the property names: a in A, b in B => op(a,b) in OP(A,B) unless NaN.',
    'assumptions': ['monotonicity of correctly rounded f32 arithmetic and libm functions is exercised on a grid only'],
}
del NOT_APPLICABLE['C03']

PLAN['C05'] = {
    'level': 'other',
    'technique': 'contract-based deductive verification (Verus) of the dual arithmetic of types/grad.rs on its real text (value lane == point operation, each derivative lane == the textbook rule applied to that lane) and of the VM gradient interpreter dispatch (unit vm); Kani full-domain harnesses on the select operations; bounded native contract runner for numeric agreement with an f64 dual evaluation and for the JIT',
    'level_text': 'Proved (Verus, real text of grad.rs, 28 operations): for abs, sqrt, sin, cos, tan, asin, acos, atan, exp, ln, recip, floor, ceil, round, neg, add, sub, mul, scale, div, atan2, rem_euclid, min, max, and, or, not, From<f32> the value lane is exactly the f32 point operation on the operand values, and each of dx, dy, dz is the differentiation rule of that operation (written from calculus in units/grad.py, the same rule function for the three lanes) applied to that lane\'s seeds in f32, for arbitrary seeds; the operations cannot panic.  No rounding-error bound and no statement about the true real derivative is proved (that is the bounded contract grad_rules against an f64 dual evaluation).  Partial: for min, max, abs, neg the gradient value equals the point value for arbitrary seed lanes, lanes are treated uniformly and the derivative lanes are those of the selected operand (all f32 inputs, Kani). Proved (Verus, unit vm): VmGradSliceEval::eval applies, for every RegOp variant and every sample, the Grad operation of that name to the right operands in the right order (Recip as 1/x, Square as x*x, MulRegImm as scaling), so the chain rule through a tape is exactly the composition of the per-operation rules. Arithmetic/transcendental derivative rules (bounded contract grad_rules: every RegOp variant against the textbook rule on a grid, arbitrary seeds) and the JIT (jit_grad) are bounded stand-ins, not discharged obligations.',
    'level_note': 'Level other: the property is about real derivatives within a tolerance; what is proved is the exact f32 form of each rule, lane by lane, and the interpreter plumbing. Trusted: Verus+Z3 with ax_float_total (f32 ops are total) and ax_comm (+ and * commute), uninterpreted libm functions, Kani/CBMC. Not covered by proof: rounding error, compare/rand/mix, the symbolic derivative Context::deriv (bounded: deriv_rules compares it with the gradient evaluator on op(g, h) with non-trivial inner functions; known finding K6: modulo), the JIT gradient evaluator (bounded: jit_grad).',
    'legs': [leg_kani('leaf'), leg_verus('grad'), leg_verus('vm'), leg_verus('shape'), leg_bounded('grad_rules'), leg_bounded('jit_grad'), leg_bounded('deriv_rules'), leg_bounded('shape_transform')],
    'explanation': 'Only comparison/select bodies are tractable for CBMC; the rest is stated as not covered.',
    'assumptions': ['no error bound on derivative arithmetic is proved', 'the rule table RULES of units/grad.py is the specification of d/dx for each opcode (written from calculus)', 'Verus gives structs with f32 fields no field range invariant; the proved lemma_fields re-introduces the typing facts (see units/grad.py)'],
}
del NOT_APPLICABLE['C05']


PLAN['C02'] = {
    'level': 'other',
    'technique': 'contract-based deductive verification (Verus) of the Rust drivers around the emitted machine code - JitBulkEval::eval and JitTracingEval::eval of fidget-jit/src/lib.rs on their real text, raw pointers as ghost-carrying stand-ins, the emitted function as one trusted stand-in with a stated contract; bounded native contract runner (JIT evaluators vs interpreter) for the emitted machine code itself, which is outside verifier reach',
    'level_text': 'Partial. Proved unbounded (unit jit, every slice length n including 0, n < SIMD width and n not a multiple of it, every number of variables and outputs, whatever the evaluator object held before): the many-point driver hands the machine code only pointers that are valid for the count passed with them (scratch rows of MAX_SIMD_WIDTH elements for n < SIMD, the caller\'s slices and the evaluator\'s own output rows otherwise, ptr::add inside its allocation, count a multiple of the SIMD width), and returns one row per output holding exactly one result per input sample, each equal to the compiled function on that sample\'s column - under the stated contract of the machine code (call_bulk: reads and writes exactly `count` elements per pointer). Same for the single-point driver: arrays sized and cleared before the call, a trace returned iff a clause is decided. SIMD_SIZE of both impls within 1..=MAX_SIMD_WIDTH (both architectures). NOT proved: that the emitted bytes implement that contract and agree with the interpreter opcode by opcode - bounded stand-in only: every opcode x operand form x register/stack placement x special-value grid, all slice lengths 0..=4*SIMD+3, 1-3 outputs and seeded deep tapes that force stack spills are compared with the interpreter under the property\'s own equality.',
    'level_note': 'Trusted: Verus+Z3; the stand-ins of unit jit (call_bulk / call_trace = what the machine code is assumed to do; CPtr/MPtr pointer stand-ins with std\'s validity rules; assume_specification for Vec::resize_with and slice::fill). The interpreter is the oracle of the bounded legs (itself proved against the reference opcode meaning in unit vm, C01).',
    'legs': [leg_verus('jit'), leg_bounded('jit_point'), leg_bounded('jit_bulk'), leg_bounded('jit_bulk_guard')],
    'cex': ['jit_bulk_guard', 'jit_bulk', 'jit_point'],
    'explanation': 'Drivers: Verus postconditions of the real functions (units/jit.py). Machine code: enumerated grid + seeded random tapes, see coverage.bounded[*].space for the exact spaces',
    'assumptions': ['aarch64 back end not exercised (x86_64 host); its SIMD_WIDTH is checked against MAX_SIMD_WIDTH',
                    'call_bulk / call_trace: the emitted function touches exactly `count` elements behind each pointer and computes sem(k, column) - exercised natively by jit_bulk / jit_point / jit_trace / reuse, never proved',
                    'uniform(vars) and vars.len() >= var_count: established by VarMap::check_bulk_arguments before the driver is called (proved in unit varmap)'],
}
del NOT_APPLICABLE['C02']

PLAN['C06'] = {
    'level': 'other',
    'technique': 'contract-based deductive verification (Verus) of the per-tile recursion of the 2D renderer - Worker::render_tile_recurse and Worker::render_tile_pixels of fidget-raster/src/pixel.rs and the tile helpers Tile::{new, add}, TileSizesRef::{index, get, pixel_offset} of fidget-raster/src/lib.rs - on their real text, generic over the Function, with the three component properties the renderer composes (interval enclosure, simplification, bulk evaluation through the shape wrappers) as stated contracts of trusted stand-ins; bounded native contract runner (render vs per-pixel Context::eval) for the whole pipeline',
    'level_text': 'Partial. Proved unbounded (unit raster; every tile-size list TileSizes::new accepts with root tile <= 4096, every depth, every tile position inside a root tile, every previous image content, pixel-perfect or not): after render_tile_recurse EVERY pixel of the tile holds the value of the ORIGINAL shape function at that pixel\'s sample position, or (unless pixel-perfect) a fill whose inside flag is the sign of that value, and NO pixel outside the tile is written; so skipping whole tiles on interval evidence and evaluating simplified tapes inside tiles is unobservable, given the three hypotheses below. No panic in the recursion (indices, unreachable!() arms, usize arithmetic). Also proved (same unit, function `render` of pixel.rs with Image::{new, width, height, decode_position} of lib.rs on their real text): the assembly of the root tiles into the image - every pixel (x, y) of the returned image holds the value of the shape at (x, y) or a correctly signed fill, given that render_tiles returns one worker output per root tile of the image (stand-in with exactly the postcondition proved for the recursion at depth 0); no out-of-range image access (the two assertions of decode_position). NOT proved: the hypotheses themselves at this call site (they are the claimed properties C03+C14, C04, C01/C02+C14, each with its own check), render_tiles (tile generation, rayon workers), Worker::new / render_tile, TileSizesRef::new (iterator position), the RawDistancePixel bit packing, the screen-to-world matrix: bounded contract render2d only (all of these run natively there, every pixel compared with Context::eval).',
    'level_note': 'Trusted: Verus+Z3; the stand-ins of unit raster (ShapeTracingEval / ShapeBulkEval / RenderHandle contracts = the assumed component properties; nalgebra Point2/Vector2 as two-field structs; Image as its data vector; fill_range as a verified model of slicing + fill); six float axioms (exact and monotone usize -> f32 conversion below 2^24, order chaining, comparison operators equal their specification).',
    'legs': [leg_verus('raster'), leg_verus('tiles'), leg_verus('handle'), leg_bounded('render2d')],
    'cex': ['render2d'],
    'explanation': 'The postcondition tile_ok / frame of the recursion is stated about the handle\'s original function; the recursion passes simplified handles down and the proof transfers their pixels back through the agreement hypothesis on the tile\'s own box (units/raster/__init__.py).',
    'assumptions': ['C03 + C14 at the call site: the sign decided by the interval result on the tile\'s box is the sign of the function at every pixel of the tile; a returned trace is valid on that box',
                    'C04 at the call site: RenderHandle::simplify returns a function that agrees with its parent on the traced box, and the parent keeps its function (cached child handles) - the handle part is proved in unit handle (the returned handle evaluates the simplification of THIS handle for THIS trace, a cache hit needs an equal trace, the parent keeps its function and invariant); what the simplification of a shape is, is C04',
                    'C01/C02 + C14 at the call site: the bulk evaluator returns, per sample, the function at that sample',
                    'pixel coordinates below 2^24 (f32 conversion exact); z is a number',
                    'render_tiles (per-thread workers, cancellation): stand-in whose contract is one worker output per root tile of the image - the tile list itself (the block of render_tiles that builds it) is proved in unit tiles: one tile per root tile, aligned, inside the image, none twice, every pixel covered; that each tile of the list is rendered by Worker::render_tile and collected in order (iterator adapters, rayon) is assumed; TileSizesRef::new: stand-in returning a suffix of the tile-size list - proved in unit tiles (TileSizes::new accepts exactly the ordered, divisible lists; TileSizesRef::new returns the suffix starting at the root tile); NOT guaranteed by the code: the smallest size is >= 1 (TileSizes::new(&[0]) is Ok) and root tile <= 4096; usize is 64 bits'],
}
del NOT_APPLICABLE['C06']

PLAN['C07'] = {
    'level': 'other',
    'technique': 'contract-based deductive verification (Verus) of the 3D renderer of fidget-raster/src/voxel.rs on its real text - Worker::render_tile (z-descending slab loop with early termination), Worker::render_tile_recurse (early exit on filled pixels, interval fill / skip, simplification, z-descending recursion), Worker::render_tile_pixels (column collection, per-voxel evaluation, first-hit search, column compaction, gradient batch) and render (merge of the root tiles with the depth clamp) - generic over F: Function, the proof text woven line by line into the mechanically extracted and rewritten functions; the evaluator components as trusted stand-ins whose contracts are the claimed properties C03/C04/C05/C01/C02/C14; bounded native contract runner for the whole renderer against the brute-force heightmap',
    'level_text': 'Partial. Proved unbounded (unit voxel; every tile-size list TileSizes::new accepts with root tile <= 4096, every recursion depth and tile position, voxel coordinates below 2^24, grid depth >= 1, whatever the worker held before): for every pixel column of the image the reported pixel is the clamp to the grid depth of a pixel p with: p empty (depth 0) and no voxel of the column inside, or 1 <= p.depth <= Z (Z = top of the last slab of root tiles), the voxel p.depth - 1 is inside the ORIGINAL shape, p.normal is the gradient evaluation of the original shape at that voxel and no voxel between p.depth and Z is inside, or p.depth == Z + 1 and the voxel just above the slabs is inside (the case the property excludes); a column whose highest inside voxel is the top voxel of the grid or above is reported saturated (depth = grid depth, normal (0,0,1)), every other column exactly as found. Early termination (all pixels filled, slab loop break), the per-pixel occlusion skip, interval fills and simplified tapes are inside the proved functions, so they are unobservable by construction of the postcondition. No panic: the assertions `size > 0` and `depth < z`, every try_into().unwrap(), every index into the tile image and the scratch arrays (the get_unchecked_mut writes are checked as ordinary indexing: the SAFETY comment is discharged). ASSUMED, as contracts of stand-ins: interval enclosure on the tile box and validity of the returned trace (C03, C14); the simplified function agrees with its parent in value and in gradient evaluation on the traced box (C04, C05); the bulk evaluators return per sample the (gradient) evaluation of the function on that sample (C01/C02, C05, C14); render_tiles returns one worker output per root tile of the image (rayon workers: not under contract). Bounded only (render3d): the whole renderer against per-voxel Context::eval on 5 shapes x grid sizes x tile lists x transforms x VM/JIT x thread pools.',
    'level_note': 'Level other: the composition performed by the renderer is proved on its real text, relative to the component properties, which are claimed (and checked) separately. Trusted: Verus+Z3; the stand-ins of unit voxel (ShapeTracingEval / ShapeBulkEval / RenderHandle contracts; nalgebra Point2/Point3/Vector2/Vector3 as plain structs; Image as its data vector; Image::new, VoxelSize accessors, mem::take, slice prefix, From<u32> for VoxelSize as one-line stand-ins); float facts ax_cast_mono, ax_add_cast (voxel coordinates below 2^24 convert exactly and monotonically), ax_cmp; ax_px_default (the derived Default of GeometryPixel has depth 0); verified models of library idioms: find_neg (chunks + enumerate + find), div_ceil_u32; rewrite rules R-all, R-continue, R-revrange, R-unchecked, R-chunks-find, R-enumerate, R-prefix, R-pow, R-tryinto, R-cast, R-fadd, R-opcall, R-ptindex, R-imgindex, R-index, R-minmax, R-from, R-divceil, R-memtake, R-let, R-tail, R-iter-tuple, R-traitfn (each counted in the evidence); the line-by-line weaving of the proof template (difflib alignment: real lines are emitted, never template lines). Not covered: render_tiles, cancellation, TileSizesRef::new (stand-in: a suffix of the list), the effects of fidget-raster/src/effects.rs.',
    'legs': [leg_verus('voxel'), leg_verus('tiles'), leg_verus('handle'), leg_bounded('render3d')],
    'cex': ['render3d'],
    'explanation': 'pv(f, p0, p1, ax, ay, cz, n, zl): the state of one pixel while the slab [cz, cz+n) is worked through from the top down to zl; lemma_pv_step composes a sub-slab below everything done so far (a fill below an already-looked-at sub-slab cannot raise the pixel: the voxel above it would have been found); vox_ok = pv at zl = cz is the postcondition of render_tile_recurse and, with cz = 0 and n = Z, of render_tile; lemma_vox_transfer moves the statement from the simplified function to the original one through agreement on the tile box; render_tile_pixels is proved with ghost maps from pixel numbers to collected columns and from columns to gradient samples (strictly increasing, so compaction never overwrites a column still to be read).',
    'assumptions': ['C03 + C14 at the call site: the sign decided by the interval result on the tile box is the sign of the function at every voxel of the slab and of the voxel row just above it; a returned trace is valid on that box',
                    'C04 + C05 at the call site: RenderHandle::simplify returns a function that agrees with its parent, in value and in gradient evaluation, on the traced box - the handle part (cache keyed by the trace, tapes belong to the shape) is proved in unit handle; what the simplification of a shape is, is C04/C05',
                    'C01/C02/C05 + C14 at the call site: the float-slice and grad-slice evaluators return, per sample, the (gradient) evaluation of the function at that sample',
                    'voxel coordinates below 2^24 (f32 conversion exact), grid depth >= 1, usize is 64 bits, root tile <= 4096',
                    'render_tiles (per-thread workers, cancellation): stand-in whose contract is one Worker::render_tile output per root tile of the image - the tile list itself is proved in unit tiles; that each tile of the list is rendered and collected in order (iterator adapters, rayon) is assumed; TileSizesRef::new: stand-in returning a suffix of the tile-size list - proved in unit tiles; NOT guaranteed by the code: the smallest size is >= 1 (TileSizes::new(&[0]) is Ok); Worker::new / Scratch::new: proved in unit voxel (they establish exactly the scratch sizes render_tile requires; cfg.mat() is a stand-in)'],
}
del NOT_APPLICABLE['C07']

PLAN['C10'] = {
    'level': 'proof',
    'technique': 'contract-based deductive verification (Verus): RegisterAllocator::reset establishes exactly the abstract view of new (`fresh`), simplify\'s contract is independent of the previous workspace/tape contents, the allocator theorem holds from arbitrary initial slot contents; bounded native contract runner for evaluator/storage reuse',
    'level_text': 'Proved unbounded: reset(size, tape) yields the same complete abstract view as new(size) whatever the allocator held before (allocations, registers, LRU order, spare lists, empty tape, slot_count 0); VmWorkspace::reset likewise; simplify\'s proved postconditions mention neither old(workspace) nor the recycled tape; stale register/memory contents are unobservable because the C01 theorem is quantified over all initial slot contents. Evaluator objects, JIT Mmap reuse and Function::recycle are bounded stand-ins (all ordered pairs of 12 functions x 3 backends x 4 evaluator kinds).',
    'level_note': 'Trusted: Verus+Z3; assume_specification for slice::fill and mem::take; vstd specs of Vec::resize/clear. Proved in unit vm: TracingVmEval::resize_slots and BulkVmEval::resize_slots give slots/outputs/trace exactly the shape of the new tape whatever the evaluator held before, the trace is cleared to Unknown, and the results of the four VM eval functions are functions of the tape, the inputs and the (arbitrary) initial slot contents only. Proved in unit shape: the Shape-level wrappers ShapeTracingEval::eval_raw and ShapeBulkEval::eval_raw rebuild their argument vector / argument matrix (exactly max(#variables,1) rows of exactly n samples) from the current tape and inputs whatever the wrapper object held before. Bounded only: JIT storage growth, RenderHandle (contract render_handle: cached simplification keyed by trace, recycle into shared pools).',
    'legs': [leg_verus('alloc'), leg_verus('simplify'), leg_verus('vm'), leg_verus('shape'), leg_verus('jit'), leg_verus('handle'), leg_bounded('reuse'), leg_bounded('shape_reuse'), leg_bounded('render_handle')],
    'explanation': 'reset == new on the view is the postcondition `fresh(size)` shared by both functions; see units/alloc/spec.py',
    'assumptions': ['JIT evaluator-object reuse and Function::recycle are enumerated, not proved'],
    'cex': ['reuse', 'shape_reuse'],
}
del NOT_APPLICABLE['C10']

PLAN['C19'] = {
    'level': 'other',
    'technique': 'contract-based deductive verification (Verus) of the two evaluation passes of the solver workspace, Solver::get_jacobian and Solver::get_err of fidget-solver/src/lib.rs, on their real text (std HashMap through the model of vstd, nalgebra matrix/vector as stand-in types); bounded native contract runner for solve as a whole',
    'level_text': 'Partial (the clauses about fixed parameters and about the three-per-sample packing; convergence is bounded only). Proved for every function type F, every set of equations whose tapes have well-formed variable maps, every parameter map and every current point: (1) Solver::get_jacobian calls the gradient evaluator, for every equation t, on an argument matrix whose row for a Fixed parameter holds (its given value, 0, 0, 0) in every sample and whose row for the Free parameter numbered gi holds, in sample j, (cur[gi], [3j == gi], [3j+1 == gi], [3j+2 == gi]): sample j, lane l differentiates with respect to the free parameter numbered 3j+l and no other, for any number of free parameters (not only multiples of three); rows are addressed through the variable map of equation t itself, although one matrix is shared by all equations; jacobian[(t, gi)] is lane gi % 3 of sample gi / 3 of the first output, result[t] is the value lane of sample 0; (2) Solver::get_err calls the point evaluator on an argument vector that binds every parameter by identity (the given value of a Fixed one, cur[gi] - delta[gi] of a Free one) and returns the sum of the squared first outputs; (3) neither function can panic (every unwrap, every index into the shared arrays, into cur/delta, into the output, Matrix::get_mut, the panic arm of Grad::d, the overflow of j*3+2) - under the preconditions that Solver::new establishes (not under contract: iterator chains) and that there is at least one free parameter.  That last precondition is not met by solve when every parameter is fixed: see the findings.  NOT covered by proof: Solver::new, the Levenberg-Marquardt loop of solve (nalgebra SVD, damping schedule, exit criteria), hence "exactly the free parameters are returned", "an exactly satisfied start is returned unchanged" and "well-conditioned consistent linear systems are solved" are bounded only (contracts solver_linear: diagonally dominant systems with 1..=14 (40) variables, a random third fixed, sparse equations in random term order, both back ends; solver_bind: triangular systems).',
    'level_note': 'Level other: the per-evaluation binding and packing are proved on the real text; whole-solver behaviour is numeric convergence, which no contract within reach decides (bounded stand-in, labelled). Trusted: Verus+Z3; vstd model of std HashMap with obeys_key_model::<Var>() assumed (derived Hash/Eq of Var consistent); stand-ins DMatrix/DVector for nalgebra (get_mut returns the element iff in range; Index/IndexMut), VarMap::get stub, <[T]>::fill spec, trait Function reduced to two associated types, contracts of TracingEvaluator::eval and BulkEvaluator::eval (proved for the VM evaluators in unit vm, bounded for the JIT); rewrites R-enumerate, R-intoiter, R-continue, R-hashindex, R-itermut, R-compound (each a documented std equivalence).',
    'legs': [leg_verus('solver'), leg_bounded('solver_linear'), leg_bounded('solver_bind')],
    'cex': ['solver_linear', 'solver_bind'],
    'explanation': 'gbound(m, map, vars, gi, cur): for every entry (var, idx) of the tape\'s map with var a parameter, row idx of m holds gval(parameter, j) in every sample j; the loop over the parameter HashMap carries it for the parameters visited so far (distinct keys -> distinct entries -> distinct rows, so later writes keep earlier rows); the read-out loop carries jacobian.at(t, g) for g < gi.',
    'assumptions': ['what Solver::new establishes: every tape\'s variable map is well-formed and fits the shared arrays; rows of input_grad have one common length n >= 1 with 3n >= number of free parameters; grad_index numbers the free parameters below cur.len()',
                    'jacobian/result sizes as documented ("Panics if jacobian or result are an invalid size")',
                    'the Levenberg-Marquardt iteration itself is only exercised (solver_linear, solver_bind)'],
}
del NOT_APPLICABLE['C19']

PLAN['C15'] = {
    'level': 'other',
    'technique': 'contract-based deductive verification (Verus) of Bytecode::new of fidget-bytecode/src/lib.rs on its real text (its FnMut closure lambda-lifted, std HashMap through the model of vstd), of the closure itself and of From<RegOp> for BytecodeOp; register/memory operand bounds of every emitted RegOp proved in unit alloc (invariant I6); bounded native contract runner with an independent decoder/interpreter for execution equivalence',
    'level_text': 'Partial: the format clauses are proved, execution equivalence is bounded. Proved for every register budget N and every register tape whose memory operands lie in N.. (what the allocator guarantees: I6): Bytecode::new returns Err exactly when the renaming maps a register of the tape to the reserved register 255; otherwise the word list starts with 0xFFFF_FFFF 0 and ends with 0xFFFF_FFFF 0xFFFF_FFFF, has exactly two words per tape operation in forward order, the first word is the little-endian packing of [opcode, output register, first input, second input] with 0xFF for an immediate or unused byte (Load keeps its register in the output byte and flags the input, Store flags the output byte), the second word is the output/input index, the memory slot relative to the first memory slot, the bits of the f32 immediate, or the unused marker; the opcode byte is the position of the operation name in the public opcode table (enum BytecodeOp, what iter_ops enumerates) by the naming rule of the format documentation - the real From<RegOp> for BytecodeOp is proved against that table; every register byte is below the advertised reg_count, every memory slot below mem_count, no instruction uses the reserved register; no panic (the map lookup, slot + 1 - N, r + 1, try_from(N)).  The encoding spec functions are generated from the RegOp variant list by operand kinds and the naming rule, not from the match in new.  Bounded only: that an independent interpreter following the documentation computes the same outputs as the VM interpreter (contract bytecode: every opcode form x registers {0,1,N-1} x memory slots x immediates, 1- and 2-op tapes, seeded compiled expressions with budgets 3/4/12), and RegTape::repack_map (sort by frequency: iterator chains; stub: an entry for every register mentioned).',
    'level_note': 'Level other: the deciding encoder is proved against the documented format; "produces the same outputs" quantifies over an interpreter and is a bounded stand-in. Trusted: Verus+Z3; stubs VmData/RegTape (operations in forward order, repack_map has an entry for every register of the tape), uninterpreted le32 (u32::from_le_bytes, through wrapper R-wrap) and f32_bits (f32::to_bits); rewrites R-closure-lift (the closure store_reg becomes a function taking its captures), R-hashindex, R-iter, R-extend-array, R-wrap; the reading of the format documentation in the generated spec functions (operand positions, Load/Store flags, naming rule).',
    'legs': [leg_verus('bytecode'), leg_bounded('bytecode'), leg_verus('alloc')],
    'cex': ['bytecode', 'alloc_cex'],
    'explanation': 'loop invariant: data has 2 + 2k words, the first two are the marker, emitted(data, ops, map, N, j) for j < k (two words per operation), regs_below/no_reserved for j < k against the running reg_count, memory slots below the running mem_count; the closure contract: Ok iff the renamed register is not 255, then word[i] := map[r] and reg_count := max(reg_count, map[r] + 1).',
    'assumptions': ['memory operands of the tape are in N..u32::MAX (allocator invariant I6, proved in unit alloc; here a precondition)',
                    'RegTape::repack_map has an entry for every register the tape mentions (stub; bounded contract bytecode runs the real one)',
                    'execution equivalence with an interpreter is only explored (bounded contract bytecode)'],
}
del NOT_APPLICABLE['C15']

PLAN['C12'] = {
    'level': 'other',
    'technique': 'contract-based deductive verification (Verus) of the expression constructors of context/mod.rs and of BinaryOpcode::eval / UnaryOpcode::eval on their real text; Kani full-domain harnesses discharging every float identity the rewrites rely on; bounded native contract runner as counterexample search',
    'level_text': 'Partial (constructor clause of the property only). Proved for every arena, every operand (node handle or number, through the generic IntoNode parameter) and every variable assignment: each of the 38 constructors returns a node whose operation-by-operation meaning `sem` is the f32 operation applied to the meanings of its operands - exactly for the constructors without rewrites (all unary ones, atan2, compare, mix, modulo, and the internal op_unary/op_binary with constant folding through the verified UnaryOpcode::eval/BinaryOpcode::eval), and up to the sign of a zero result under the finiteness hedge of the property for add, mul, sub, div, min, max, and, or (identity elimination x+0, 0+x, x*1, 1*x, x*0, 0*x, x-0, 0-x, 0/x, x/1, x+x -> 2x, x*x -> square, min/max(x,x), and/or with a constant operand, operand reordering of commutative operations); the arena only grows and keeps the meaning of every existing node; no constructor can panic.  Each float identity used is an axiom of the unit and is proved for all f32 bit patterns by a Kani harness of the same name.  NOT covered: deduplication (same expression -> same node), import/export, Tree hashing/equality, deep-recursion safety, the text parser; Context::eval itself (HashMap, closure recursion) is not under contract: `sem` is its specification.',
    'level_note': 'Level other: one clause of the property (constructor rewrites preserve meaning) is proved; the other clauses (deduplication, import/export round trip, hashing, stack safety) are not applicable to this technique (HashMap-backed arena, explicit-stack walkers over Arc pointers) and are not claimed. Trusted: Verus+Z3, Kani/CBMC, the stub of the hash-consing arena IndexMap (insert finds or appends; existing entries unchanged), local stand-ins for Var/OrderedFloat, uninterpreted libm functions and FloatExt functions, extractor rules R-floatpat, R-letchain, R-tail, R-closure-underscore, R-derive-ord.',
    'legs': [leg_verus('context'), leg_kani('leaf'), leg_bounded('context_rewrites'), leg_bounded('tree_clauses')],
    'cex': ['context_rewrites', 'tree_clauses'],
    'explanation': 'sem(ops, n, env) mirrors Context::eval; every constructor carries requires wf(arena) and ensures grown(old, new, r) plus the meaning equation; callers (add -> mul -> square/op_binary_commutative, sub -> neg, less_than -> max, if_nonzero_else -> and/or/not) see only callee contracts.',
    'assumptions': ['IndexMap::insert contract (stub): returns an index holding the value, existing entries unchanged; deduplication not claimed',
                    'Context::eval computes sem: proved in unit context (Context::eval / eval_inner on their real text: memo cache, recursion on the topological order of the arena, errors exactly for a bad node or a missing variable; std HashMap through the model of vstd, obeys_key_model::<Var>() assumed)',
                    'float identities of ax_ctx: each proved for all f32 by the Kani harness ctxax::c12__ctxax_*'],
}
del NOT_APPLICABLE['C12']

PLAN['C14'] = {
    'level': 'other',
    'technique': 'contract-based deductive verification (Verus) of the Shape-level tracing evaluator wrapper of shape/mod.rs on its real text, generic over the wrapped evaluator, the coordinate type and the variable-value type; bounded native contract runner over permutations of variables, supply orders and transforms on both back ends',
    'level_text': 'Partial (binding clause; the tracing wrappers fully, the many-point/gradient wrapper for the axes and for totality). Proved for every evaluator E: TracingEvaluator, every tape whose variable map is well-formed, all coordinates, every optional transform and every set of supplied variable values: ShapeTracingEval::eval_raw calls the wrapped evaluator on an argument vector in which, for every entry (var, index) of the tape\'s variable map, slot index holds the value of var - the (converted, then transformed) x, y or z for the axes, the converted supplied value for Var::V(i) - independently of the order in which the map enumerates its entries and of anything else in the supplied set (extra variables are never read); the result is the wrapped evaluator\'s first output on that vector; a variable of the map that is not supplied yields the MissingVar error and nothing else is an error (the inner argument error is proved unreachable); the four public wrappers eval / eval_with_transform / eval_with_vars / eval_with_transform_and_vars are eval_raw with the corresponding arguments.  That simplification keeps the variable numbering is proved under C04 (simplify ensures r.vars == self.vars).  Also proved (generic over E: BulkEvaluator and over the closure that fills the rows of free variables): ShapeBulkEval::eval_raw / eval / eval_with_transform return Err for x, y, z of different lengths, otherwise shape the argument matrix as max(#variables, 1) rows of exactly n samples whatever the evaluator object held before, call the closure exactly once per free variable of the map with that variable\'s own row and index, write the (transformed) positions into the rows of the axes at the map\'s indices for every sample, return n samples which are the wrapped evaluator\'s first output row on that matrix, and cannot panic (both `unreachable!()` arms and every index are obligations).  Also proved: <Interval as Transformable>::transform and <Grad as Transformable>::transform return (h0/h3, h1/h3, h2/h3) with h_i = x*M[i][0] + y*M[i][1] + z*M[i][2] + from(M[i][3]) in the type\'s own arithmetic, i.e. the projective image M·(x,y,z,1) divided by its homogeneous coordinate, for every matrix (no affine shortcut).  Also proved (round 6): the row fillers ShapeBulkEval::var_value / var_array (closures returned as `impl Fn`, with their postconditions on the closure) and the four public many-point wrappers with variables: eval_with_vars / eval_with_transform_and_vars return Err exactly for unequal x, y, z lengths or a variable of the shape that is not supplied, and otherwise evaluate on an argument matrix whose row for each free variable holds, in every sample, the value supplied under that variable\'s own identity (vals_bound); eval_with_var_arrays / eval_with_transform_and_var_arrays likewise with the supplied array copied sample by sample (arrs_bound) and the additional error of an array of another length; ShapeBulkEval::eval_raw exports, generically in the row filler, that the row of every free variable is what the filler wrote when called with that variable\'s own index (vars_bound, a prophetic predicate over the closure\'s postcondition) and that a failure of the filler on a row of n samples is the only other error.  NOT covered by proof: that `VarMap::iter` enumerates exactly the assigned indices (chained iterators: the opaque stand-in of the other units; the index assignment itself is proved in unit varmap: VarMap::insert keeps every variable at most once with pairwise distinct indices below len, gives a new variable the next index and never changes an assigned one; get returns the assigned index), Transformable for f32 (nalgebra transform_point; bounded contract shape_transform compares all four evaluator kinds on both back ends with an f64 reference of the projective map, gradients against central differences), the Jacobian pass of the solver Solver::get_jacobian and Solver::new / solve (enumerate over iter_mut, nalgebra DMatrix/SVD, iterator chains; bounded contract solver_bind: triangular linear systems whose fixed and free parameters sit in different slots of different equations), the GPU/mesher call sites.  Proved in unit solver (real text of fidget-solver/src/lib.rs, std HashMap through the HashMap model of vstd): Solver::get_err calls the point evaluator, for every equation, on an argument vector that binds by identity every parameter occurring in the variable map of that equation (the fixed value, or cur[gi] - delta[gi] with gi = grad_index[v]), although one array is shared by all equations and each tape numbers its variables differently; the result is the sum of the squared first outputs; neither unwrap nor any index can panic.',
    'level_note': 'Level other: the binding mechanism of the tracing wrappers is proved generically; the other evaluator kinds and the construction of the variable map are outside the technique (closures over &mut slices, HashMap entry API, nalgebra) and are only exercised by bounded contracts. Trusted: Verus+Z3; stubs VarMap (entries/wf/len/iter_vec), ShapeVars (finite map), Matrix4 (opaque, entries m(i,j), row(i) as four entries), Interval/Grad operators +, /, * f32, From<f32> with uninterpreted meanings (under contract in units interval/grad); the trait contracts of TracingEvaluator::eval (satisfied by the VM evaluators: unit vm) and Transformable::transform; extractor rules R-iter, R-alias, R-derive-from, R-spec-in-trait, R-arraymap, R-zipmut, R-deref, R-let, R-intoiter, R-continue, R-hashindex, R-compound; unit solver additionally assumes obeys_key_model::<Var>() (the derived Hash/Eq of Var are consistent), the VarMap::get stub, trait Function reduced to two associated types, and as preconditions what Solver::new establishes (well-formed variable maps that fit the shared array, grad_index numbering the free parameters below cur.len()).',
    'legs': [leg_verus('shape'), leg_verus('solver'), leg_verus('varmap'), leg_bounded('shape_bind'), leg_bounded('shape_transform'), leg_bounded('solver_bind')],
    'cex': ['shape_bind', 'shape_transform'],
    'explanation': 'bound(s, map, x, y, z, vars): s[index] == bind(var) for every entry of the map; the loop invariant carries it for the entries visited so far (distinct indices keep earlier slots intact) together with "no visited free variable is missing".',
    'assumptions': ['VarMap::wf (every variable once, indices distinct and below len): established by VarMap::insert (HashMap; not under contract; bounded contract flatten compares whole pipelines)',
                    'TracingEvaluator::eval contract: Err iff fewer arguments than variables; outputs = out_spec(tape, arguments), one per tape output (proved for the VM evaluators in unit vm, bounded for the JIT)',
                    'Into conversions obey their spec (obeys_into_spec is a precondition)'],
}
del NOT_APPLICABLE['C14']
