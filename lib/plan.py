"""Per-property plan: which legs decide which property (DESIGN.md section 4)."""
import os, sys, time, json
from . import driver
from .driver import Res, log

TRUSTED = [
    'Verus 0.2026.09.13 + Z3 (verifier soundness)', 'rustc',
    'extractor drop/rewrite rules of lib/rsx.py and the unit builders (R-table, R-iter, R-let, R-tail, R-armblock, R-macro, R-revcollect, R-split); listed with fire counts under coverage.units[*].rules_fired',
]

PLAN = {}

HOOK_COMMITS = ['3186200']

NOT_APPLICABLE = {
 'C02': 'pending: bounded JIT-vs-interpreter leg not built yet (emitted machine code is outside verifier reach; only a bounded stand-in is possible)',
 'C03': 'pending: Kani/Verus interval units not built yet',
 'C04': 'pending: simplify unit not built yet',
 'C05': 'pending: gradient units not built yet',
 'C06': 'the deciding functions (render_tile_recurse, render_tiles) are generic over Function, drive nalgebra and rayon, and their postcondition quantifies over an evaluator; neither verifier can take them, and contracts on the integer helpers alone do not carry the property',
 'C07': 'same code shape as C06 plus get_unchecked_mut scratch indexing; no contract within reach decides occlusion bookkeeping across a trait-generic recursion',
 'C08': 'a global combinatorial and geometric statement over all octrees (manifoldness of the dual walk, QEF in f32); per-cell tables are finite and checkable but do not imply it',
 'C09': 'a property of rayon schedules and a relaxed atomic; Kani has no threads, Verus would need the code rewritten onto its permission types',
 'C10': 'pending: reset/new contracts exist in the alloc unit; evaluator reuse leg not built yet',
 'C11': 'pending: totality units not built yet',
 'C12': 'every constructor goes through a HashMap-backed arena, IntoNode generics and float-literal match patterns; Verus rejects the constructs and Kani symbolic execution of the arena is out of budget',
 'C13': 'Context::import is an explicit-stack walker over Arc<TreeOp> with a pointer-keyed cache and nalgebra affine products; equality is only approximate in f32',
 'C14': 'VarMap is a HashMap with the entry API, eval_raw iterates a chained iterator and applies a nalgebra projective transform; only "simplify keeps vars" is within reach and is covered under C04',
 'C15': 'pending: bytecode leg not built yet',
 'C16': 'closed-form real geometry with trigonometry; the verifier has no real-analysis semantics for f32 libm calls',
 'C17': 'the semantics lives in the rhai interpreter (external, dynamically typed, reflection-driven)',
 'C18': 'pending: view harnesses not built yet',
 'C19': 'Levenberg-Marquardt over nalgebra DMatrix, SVD pseudo-inverse and HashMap bookkeeping; numeric convergence is not a contract Verus/Kani can discharge',
 'C20': 'pending: trace record legs not built yet',
}


def leg_verus(unit):
    return ('verus', unit)


def leg_kani(suite):
    return ('kani', suite)


def leg_bounded(contract):
    return ('bounded', contract)


PLAN['C01'] = {
    'level': 'proof',
    'technique': 'contract-based deductive verification (Verus) of alloc.rs/lru.rs/reg_tape.rs on mechanically extracted real text; bounded native contract runner for interpreter loops and SsaTape::new',
    'level_text': 'Unbounded proof (all programs, all N in 3..=255, all initial register contents) that register allocation preserves tape semantics, function by function against contracts; the interpreter loops and the graph flattening are outside verifier reach and are covered by labelled bounded stand-ins only.',
    'level_note': 'Trusted: Verus+Z3, the extractor rewrite rules, assume_specification for mem::take and slice::fill, assume(slot_count < u32::MAX); bounded only: VM interpreter per-opcode contract, SsaTape::new contract, N in {1,2}.',
    'legs': [leg_verus('alloc'), leg_bounded('rev_range'), leg_bounded('interp_point'), leg_bounded('interp_bulk'), leg_bounded('flatten'),
             leg_bounded('alloc_cex'), leg_bounded('alloc_small_n')],
    'cex': ['alloc_cex', 'flatten', 'interp_point'],
    'explanation': (
        'Top theorem proved by Verus on the real text of alloc.rs/lru.rs/reg_tape.rs (extracted mechanically each run): for every N in 3..=255, '
        'every well-formed SSA tape and every initial register/memory contents, RegTape::new::<N> yields a register tape whose outputs equal the SSA '
        'tape\'s outputs as terms over uninterpreted per-opcode functions (bit-for-bit equality is equality of terms). Every allocator function, the '
        '11-arm spill table and the 49 dispatch arms are separate obligations; callers see only callee contracts. Bounded stand-ins (labelled, not '
        'counted as proved): the VM interpreter loops per RegOp variant against the reference opcode meaning, and SsaTape::new (hash maps/closures).'),
    'assumptions': [
        'ssa_wf(SsaTape::new(..)) - flattening is checked only by the bounded leg `flatten`',
        'the VM interpreter implements each RegOp variant as the reference meaning of the same-named opcode - bounded leg `interp_*` only',
        'f32 values treated as opaque terms: un_sem/bin_sem uninterpreted (no floating-point reasoning is needed or done)',
    ],
}


def run(prop, tier, seed, only=None):
    t0 = time.time()
    spec = PLAN[prop]
    results, infos = [], []
    cmds = []
    legs_filter = os.environ.get('VERIF_LEGS')
    for kind, name in spec['legs']:
        if legs_filter and kind not in legs_filter.split(','):
            continue
        if kind == 'verus':
            r, info = driver.run_verus_unit(name, prop, tier, only)
            cmds.append('verus <unit>.rs --verify-root --verify-function <F> --output-json --time (one process per obligation, unit `%s`)' % name)
        elif kind == 'kani':
            from . import kani_engine
            r, info = kani_engine.run_suite(name, prop, tier, only)
            cmds.append('cargo kani --harness <H> (suite `%s`)' % name)
        elif kind == 'bounded':
            from . import bounded_engine
            r, info = bounded_engine.run_contract(name, prop, tier, seed, only)
            cmds.append('verif-bounded %s (native contract runner)' % name)
        else:
            raise SystemExit('unknown leg kind %s' % kind)
        results += r
        infos.append(info)
    cex = None
    if spec.get('cex'):
        from . import bounded_engine
        cex = lambda res: bounded_engine.cex_search(spec['cex'], res, seed)
    return driver.finish(prop, tier, seed, spec['level'], results, infos, t0, spec['explanation'], TRUSTED + spec.get('trusted_extra', []),
                         spec['assumptions'], '; '.join(cmds), cex_search=cex)


def replay(prop, path):
    d = json.load(open(path))
    print(json.dumps({k: d.get(k) for k in ('property', 'obligation', 'engine', 'failing_input')}, indent=1))
    fi = d.get('failing_input')
    if fi and fi.get('native_cmd'):
        import subprocess
        log('replaying natively: %s' % fi['native_cmd'])
        return subprocess.call(fi['native_cmd'], shell=True)
    print('no failing input recorded (no-failing-input-found); verifier output follows')
    print(d.get('verifier_output', '')[-3000:])
    return 1


PLAN['C18'] = {
    'level': 'other',
    'technique': 'Kani full-domain harnesses (contract = assume pre / assert post) on the real fidget-gui View2/View3, with native replay of counterexamples',
    'level_text': 'Partial: the exact clauses of the property (frame conditions of rotate/zoom, pitch range, changed-flag false on a bit-identical view) are proved for ALL f32 inputs by loop-free Kani harnesses on the real code; the approximate clauses (grabbed point stays under the cursor, matrix = translate x rotate x scale) are float identities that hold only approximately and are not decided.',
    'level_note': 'Trusted: Kani/CBMC/CaDiCaL bit-precise f32 model for comparisons, + - * and clamp (the yaw `%` is modelled nondeterministically by CBMC, so nothing is claimed about the yaw range); nalgebra code is verified as compiled. Not covered: sequences of interactions through Canvas2/Canvas3 (integer screen positions through ImageSize transforms), translate (CBMC does not finish).',
    'legs': [leg_kani('leaf')],
    'explanation': 'Each harness quantifies over every f32 value of centre, scale, yaw, pitch, amount and cursor positions; harness bodies are generic over the input source so that a counterexample is re-executed natively against the real crate before it is reported.',
    'assumptions': ['single-step contracts only: View2/View3 methods, not Canvas event sequences', 'clauses about approximate float identities are not covered'],
}
del NOT_APPLICABLE['C18']
