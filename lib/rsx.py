"""Rust source extraction helpers (lexer-aware brace matching, drop rules).

Used by every E-verus unit: the text handed to Verus is cut out of the *current*
/repo sources on every run by these functions; nothing is cached or hand-copied.
Every drop/rewrite that fires is recorded in a `Trace` so the evidence file can state
exactly what the verified text differs by from the code that runs.
"""
import re


class ExtractError(Exception):
    """Infrastructure failure: anchor/item lost, unexpected source shape (exit 2, never an alarm)."""


class Trace:
    def __init__(self):
        self.rules = {}      # rule name -> count
        self.dropped = []    # free-text list of dropped things
        self.items = []      # (file, item header) extracted
        self.lost = {}       # function -> [proof/invariant anchors that were not found]: that function alone is undecided

    def fire(self, rule, n=1):
        if n:
            self.rules[rule] = self.rules.get(rule, 0) + n

    def drop(self, what):
        self.dropped.append(what)


def _skip_string(s, i):
    """s[i] == '"' (normal string). Return index after closing quote."""
    j = i + 1
    n = len(s)
    while j < n:
        c = s[j]
        if c == '\\':
            j += 2
            continue
        if c == '"':
            return j + 1
        j += 1
    raise ExtractError('unterminated string literal')


def _skip_raw_string(s, i):
    """s[i] == 'r' and a raw string starts here. Return index after it, or None."""
    m = re.match(r'r(#*)"', s[i:i + 40])
    if not m:
        return None
    hashes = m.group(1)
    end = s.find('"' + hashes, i + len(m.group(0)))
    if end < 0:
        raise ExtractError('unterminated raw string')
    return end + 1 + len(hashes)


def _skip_char_or_lifetime(s, i):
    """s[i] == "'". Return index after a char literal, or i+1 for a lifetime."""
    m = re.match(r"'(\\.[^']*|[^\\'])'", s[i:i + 12])
    if m:
        return i + len(m.group(0))
    return i + 1


def tokens_outside(s, start=0, end=None):
    """Yield (index, char) for every char of s[start:end] that is code (not inside a
    string, char literal or comment)."""
    i = start
    n = len(s) if end is None else end
    while i < n:
        c = s[i]
        if c == '/' and s.startswith('//', i):
            j = s.find('\n', i)
            i = n if j < 0 else j
            continue
        if c == '/' and s.startswith('/*', i):
            depth = 1
            j = i + 2
            while depth and j < n:
                if s.startswith('/*', j):
                    depth += 1; j += 2
                elif s.startswith('*/', j):
                    depth -= 1; j += 2
                else:
                    j += 1
            i = j
            continue
        if c == '"':
            i = _skip_string(s, i)
            continue
        if c == 'r' and (i == 0 or not (s[i - 1].isalnum() or s[i - 1] == '_')):
            j = _skip_raw_string(s, i)
            if j is not None:
                i = j
                continue
        if c == "'":
            i = _skip_char_or_lifetime(s, i)
            continue
        yield i, c
        i += 1


def match_brace(s, open_idx, open_ch='{', close_ch='}'):
    """Index of the bracket matching s[open_idx]."""
    assert s[open_idx] == open_ch, (s[open_idx:open_idx + 20], open_ch)
    depth = 0
    for i, c in tokens_outside(s, open_idx):
        if c == open_ch:
            depth += 1
        elif c == close_ch:
            depth -= 1
            if depth == 0:
                return i
    raise ExtractError('unbalanced %s at %d' % (open_ch, open_idx))


def strip_comments(s, trace=None):
    """Remove // and /* */ comments (doc comments included), keep strings intact."""
    out = []
    i = 0
    n = len(s)
    last = 0
    removed = 0
    while i < n:
        c = s[i]
        if c == '/' and s.startswith('//', i):
            j = s.find('\n', i)
            j = n if j < 0 else j
            out.append(s[last:i].rstrip(' \t'))
            removed += 1
            last = j
            i = j
            continue
        if c == '/' and s.startswith('/*', i):
            depth = 1
            j = i + 2
            while depth and j < n:
                if s.startswith('/*', j):
                    depth += 1; j += 2
                elif s.startswith('*/', j):
                    depth -= 1; j += 2
                else:
                    j += 1
            out.append(s[last:i])
            removed += 1
            last = j
            i = j
            continue
        if c == '"':
            i = _skip_string(s, i)
            continue
        if c == 'r' and (i == 0 or not (s[i - 1].isalnum() or s[i - 1] == '_')):
            j = _skip_raw_string(s, i)
            if j is not None:
                i = j
                continue
        if c == "'":
            i = _skip_char_or_lifetime(s, i)
            continue
        i += 1
    out.append(s[last:])
    t = ''.join(out)
    # remove lines that became empty
    t = re.sub(r'\n[ \t]*(?=\n)', '\n', t)
    t = re.sub(r'\n{3,}', '\n\n', t)
    if trace is not None:
        trace.fire('drop-comments', removed)
    return t


def find_item(s, header_re, start=0, what=None):
    """Locate an item whose header matches `header_re` (searched from `start`) and whose
    body is the first brace block after the header.  Returns (i, j, k): s[i:k] is the
    whole item including preceding attribute lines, s[j] is the opening brace."""
    m = re.compile(header_re, re.M).search(s, start)
    if not m:
        raise ExtractError('item not found: %s' % (what or header_re))
    i = m.start()
    # include contiguous attribute lines directly above
    while True:
        ls = s.rfind('\n', 0, i - 1) + 1 if i > 0 else 0
        prev = s[ls:i].strip() if ls < i else ''
        # we are at start of header line; look at previous line
        pl_end = i - 1 if i > 0 else 0
        pl_start = s.rfind('\n', 0, pl_end) + 1
        pline = s[pl_start:pl_end].strip()
        if pline.startswith('#[') and pline.endswith(']'):
            i = pl_start
        else:
            break
    j = None
    depth_par = 0
    scan_from = m.end() - 1 if s[m.end() - 1] in '{(' else m.end()
    # injected contracts sit between /*@spec*/ and /*@endspec*/ right after the signature; their
    # braces (struct literals, blocks in quantifiers) are not the body
    first_brace = s.find('{', scan_from)
    sp = s.find('/*@spec*/', scan_from)
    if sp >= 0 and (first_brace < 0 or sp < first_brace):
        # signature part before the marker must be scanned for parens, then skip the contract
        e = s.find('/*@endspec*/', sp)
        if e < 0:
            raise ExtractError('unterminated /*@spec*/ marker')
        scan_from = e
    for idx, c in tokens_outside(s, scan_from):
        if c in '([':
            depth_par += 1
        elif c in ')]':
            depth_par -= 1
        elif c == '{' and depth_par == 0:
            j = idx
            break
        elif c == ';' and depth_par == 0:
            raise ExtractError('item has no body: %s' % (what or header_re))
    if j is None:
        raise ExtractError('no body for %s' % (what or header_re))
    k = match_brace(s, j) + 1
    return i, j, k


def line_start(s, i):
    return s.rfind('\n', 0, i) + 1


def get_item(s, header_re, start=0, what=None):
    i, j, k = find_item(s, header_re, start, what)
    return s[line_start(s, i):k]


def find_fn(s, name, start=0, end=None):
    """Find `fn name` (word boundary) in s[start:end]. Returns (i, j, k) like find_item,
    with i at the start of the line (attributes included)."""
    sub = s if end is None else s[:end]
    i, j, k = find_item(sub, r'^[ \t]*(?:pub(?:\([a-z]+\))?\s+)?(?:const\s+)?fn\s+%s\b' % re.escape(name), start, 'fn ' + name)
    return i, j, k


def impl_block(s, header_re, what=None):
    """Return (body_start, body_end) of the impl block whose header matches."""
    i, j, k = find_item(s, header_re, 0, what)
    return j + 1, k - 1


def drop_visibility(s, trace=None):
    t, n = re.subn(r'\bpub(?:\((?:crate|super|in [a-z:]+)\))?\s+', '', s)
    if trace is not None:
        trace.fire('drop-visibility', n)
    return t


def drop_attrs(s, trace=None):
    """Drop #[inline], #[inline(always)], #[must_use], #[allow(..)], #[cfg_attr(..)], reduce
    derive lists to Copy/Clone/Default."""
    t, n = re.subn(r'^[ \t]*#\[(?:inline(?:\(always\))?|must_use|allow\([^\]]*\)|doc[^\]]*|serde[^\]]*)\]\n', '', s, flags=re.M)
    if trace is not None:
        trace.fire('drop-attr', n)

    def derive(m):
        keep = [x for x in re.split(r'\s*,\s*', m.group(1).strip()) if x in ('Copy', 'Clone', 'Default')]
        if trace is not None:
            trace.fire('reduce-derive')
        return '#[derive(%s)]' % ', '.join(keep) if keep else ''
    t = re.sub(r'#\[derive\(([^\]]*)\)\]', derive, t)
    return t


def drop_fmt_args(s, trace=None):
    """assert!/panic!/assert_eq! format arguments are dropped; assert_eq!(a, b) -> assert!(a == b)."""
    out = []
    i = 0
    n_fired = 0
    pat = re.compile(r'\b(panic|assert|assert_eq|assert_ne|unreachable|debug_assert|debug_assert_eq)!\(')
    while True:
        m = pat.search(s, i)
        if not m:
            out.append(s[i:])
            break
        out.append(s[i:m.start()])
        open_idx = m.end() - 1
        close_idx = match_brace(s, open_idx, '(', ')')
        inner = s[open_idx + 1:close_idx]
        args = split_top(inner)
        name = m.group(1)
        if name in ('panic', 'unreachable'):
            new = 'panic!()'
        elif name in ('assert', 'debug_assert'):
            new = 'assert!(%s)' % args[0].strip()
        elif name in ('assert_eq', 'debug_assert_eq'):
            new = 'assert!(%s == %s)' % (args[0].strip(), args[1].strip())
        elif name == 'assert_ne':
            new = 'assert!(%s != %s)' % (args[0].strip(), args[1].strip())
        if new != s[m.start():close_idx + 1]:
            n_fired += 1
        out.append(new)
        i = close_idx + 1
    if trace is not None:
        trace.fire('drop-fmt-args', n_fired)
    return ''.join(out)


def split_top(s, sep=','):
    """Split s on `sep` at bracket depth 0 (outside strings)."""
    parts = []
    depth = 0
    last = 0
    for i, c in tokens_outside(s):
        if c in '([{':
            depth += 1
        elif c in ')]}':
            depth -= 1
        elif c == sep and depth == 0:
            parts.append(s[last:i])
            last = i + 1
    parts.append(s[last:])
    if parts and parts[-1].strip() == '' and len(parts) > 1:
        parts.pop()
    return parts


def drop_test_mods(s, trace=None):
    while True:
        m = re.search(r'^[ \t]*#\[cfg\(test\)\]\s*\n[ \t]*mod\s+\w+\s*\{', s, re.M)
        if not m:
            return s
        j = m.end() - 1
        k = match_brace(s, j)
        s = s[:m.start()] + s[k + 1:]
        if trace is not None:
            trace.drop('#[cfg(test)] module')
            trace.fire('drop-test-mod')


def clean(s, trace=None):
    """Standard drop pipeline applied to any extracted text."""
    s = drop_test_mods(s, trace)
    s = strip_comments(s, trace)
    s = drop_attrs(s, trace)
    s = drop_visibility(s, trace)
    s = drop_fmt_args(s, trace)
    return s


def dedent(s, n):
    pad = ' ' * n
    return '\n'.join(l[n:] if l.startswith(pad) else l for l in s.split('\n'))
