"""R-macro: expand the two `opcodes!(.. pub enum X<T> { extra.. })` invocations of
fidget-core/src/compiler/op.rs by substituting `$name`, `$t` and the extra variants into the
macro's own enum template (parsed from the current source on every run)."""
import re
from . import rsx
from .rsx import ExtractError

OP_RS = 'fidget-core/src/compiler/op.rs'


def parse(repo, trace=None):
    src = open('%s/%s' % (repo, OP_RS)).read()
    src_nc = rsx.strip_comments(src)
    m = re.search(r'macro_rules!\s*opcodes\s*\{', src_nc)
    if not m:
        raise ExtractError('opcodes! macro not found')
    end = rsx.match_brace(src_nc, m.end() - 1)
    mac = src_nc[m.end():end]
    # the expansion template is the body of `pub enum $name { ... }` in the second rule
    t = re.search(r'pub enum \$name\s*\{', mac)
    if not t:
        raise ExtractError('opcodes! template not found')
    tend = rsx.match_brace(mac, t.end() - 1)
    body = mac[t.end():tend]
    variants = []
    for line in body.split('\n'):
        line = line.strip()
        if not line or line.startswith('#['):
            continue
        vm = re.match(r'^(\w+)\(([^)]*)\),?$', line)
        if vm:
            variants.append((vm.group(1), [x.strip() for x in vm.group(2).split(',')]))
        elif line.startswith('$'):
            break   # the `$( .. $foo(..) ),*` repetition
        else:
            raise ExtractError('unexpected line in opcodes! template: %r' % line)
    enums = {}
    rest = src_nc[end:]
    for inv in re.finditer(r'opcodes!\s*\(', rest):
        close = rsx.match_brace(rest, inv.end() - 1, '(', ')')
        text = rest[inv.end():close]
        em = re.search(r'pub enum (\w+)<(\w+)>\s*\{', text)
        if not em:
            raise ExtractError('opcodes! invocation shape changed')
        eend = rsx.match_brace(text, em.end() - 1)
        extras = []
        for line in text[em.end():eend].split('\n'):
            line = line.strip()
            vm = re.match(r'^(\w+)\(([^)]*)\),?$', line)
            if vm:
                extras.append((vm.group(1), [x.strip() for x in vm.group(2).split(',')]))
        name, t_ = em.group(1), em.group(2)
        enums[name] = [(v, [t_ if f == '$t' else f for f in fs]) for v, fs in variants] + extras
    if set(enums) != {'SsaOp', 'RegOp'}:
        raise ExtractError('expected SsaOp and RegOp invocations, got %s' % sorted(enums))
    if trace is not None:
        trace.fire('R-macro', 2)
        trace.items.append((OP_RS, 'opcodes!{SsaOp<u32>} (%d variants)' % len(enums['SsaOp'])))
        trace.items.append((OP_RS, 'opcodes!{RegOp<u8>} (%d variants)' % len(enums['RegOp'])))
    return enums


def render(enums, derive='Copy, Clone'):
    out = []
    for name in ('SsaOp', 'RegOp'):
        out.append('#[derive(%s)]\nenum %s {' % (derive, name))
        for v, fs in enums[name]:
            out.append('    %s(%s),' % (v, ', '.join(fs)))
        out.append('}\n')
    return '\n'.join(out)


def classify(enums):
    """Variant classes derived from field types: used to generate the reference semantics."""
    cls = {}
    for v, fs in enums['SsaOp']:
        cls[v] = fs
    return cls
